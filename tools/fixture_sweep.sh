#!/bin/bash
# every seeded change must be detected by the check of its property (rc=1), every benign fixture must stay quiet (rc=0)
# usage: tools/fixture_sweep.sh [extended-regex on the fixture name]     (several sweeps may run side by side)
cd "$(dirname "$0")/.."
PAT="${1:-.}"
bad=0
for d in seeded/*/; do n=$(basename $d)
  echo "$n" | grep -Eq "$PAT" || continue
  while read -r line; do
    echo "$line"
    rc=$(echo "$line" | sed -n 's/.* rc=\([0-9]*\) .*/\1/p')
    want=$(python3 -c "import json; print(json.load(open('seeded/$n/meta.json')).get('expected_rc', 0 if '$n'.startswith('benign-') else 1))")
    [ "$rc" = "$want" ] || { bad=$((bad+1)); echo "  ^^^ UNEXPECTED (wanted rc=$want)"; }
  done < <(tools/fixture_eval.sh $n)
done
echo "UNEXPECTED=$bad"
