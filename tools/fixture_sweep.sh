#!/bin/bash
# every seeded change must be detected by the check of its property (rc=1), every benign fixture must stay quiet (rc=0)
cd "$(dirname "$0")/.."
bad=0
for d in seeded/*/; do n=$(basename $d)
  while read -r line; do
    echo "$line"
    rc=$(echo "$line" | sed -n 's/.* rc=\([0-9]*\) .*/\1/p')
    case $n in benign-*) [ "$rc" = "0" ] || bad=$((bad+1));; *) [ "$rc" = "1" ] || bad=$((bad+1));; esac
  done < <(tools/fixture_eval.sh $n)
done
echo "UNEXPECTED=$bad"
