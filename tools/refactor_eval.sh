#!/bin/bash
# usage: tools/refactor_eval.sh <wt-id> [IDs...]  -- run quick checks against a behaviour-preserving refactoring (false-alarm hunt)
WT=/tmp/wt/$1; shift
IDS="$@"; [ -z "$IDS" ] && IDS="C01 C02 C03 C04 C05 C06 C07 C08 C09 C10 C11 C12 C13 C14 C15 C16 C17 C18 C19 C20"
(cd $WT && /venv/bin/python -m pytest -q -p no:cacheprovider --timeout=900 2>&1 | tail -1)
for id in $IDS; do out=$(IXAI_REPO=$WT "$(cd "$(dirname "$0")/.." && pwd)"/bin/check $id 2>&1); rc=$?; if [ $rc -ne 0 ]; then echo "$id rc=$rc"; echo "$out" | tail -6 | cut -c1-330; else echo "$id ok :: $(echo "$out" | grep -c KNOWN)"; fi; done
