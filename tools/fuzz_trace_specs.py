#!/usr/bin/env python3
"""Totality fuzzing of the trace specifications: recorded traces are corrupted structurally (events dropped, lists
emptied or truncated, numbers changed) and validated again.  A trace specification must answer every such trace with
FAIL clauses - never with a TLC evaluation error, which a check would have to report as a machinery failure (exit 2)
instead of a verdict.   usage: tools/fuzz_trace_specs.py [rounds] [seed]"""
import copy
import os
import random
import sys

sys.path.insert(0, os.path.dirname(os.path.dirname(os.path.abspath(__file__))))
sys.path.insert(0, os.environ.get("IXAI_REPO", "/repo"))
from harness import tlc, tracecheck          # noqa: E402


# lists whose length is decided by the behaviour of the library (numbers of callbacks, draws, stored rows ...); all
# other lists are fixed-width tuples built by the harness itself and are only corrupted in their numbers
TREE_ONLY = {"leaves", "pre", "post", "inputs", "allowed", "tokens"}
VARIABLE = {"models", "losses", "imputes", "stores", "draws", "order", "perms", "rows", "obs", "outs", "ins", "preds", "L",
            "out", "pred", "subset", "sx", "sy", "window", "want_window", "batch_out", "batch_in", "background", "values",
            "values_before", "get", "norm", "margpred", "imp", "var", "mp", "win", "ys"}


def mutate(obj, rng, depth=0, variable=False):
    """one random corruption somewhere inside obj (in place); returns a description or None"""
    if isinstance(obj, dict) and obj:
        # (flags the harness derives from the structure it parsed are left alone: they guard the value clauses)
        keys = [k for k in obj if k not in ("recomputed", "shape_ok", "exact", "exact_m", "exact_n", "recomputed_unparsed", "k", "kind")]
        if not keys:
            return None
        k = rng.choice(keys)
        v = obj[k]
        if isinstance(v, (dict, list)) and v and rng.random() < 0.75:
            r = mutate(v, rng, depth + 1, variable=(k in VARIABLE))
            if r:
                return "%s.%s" % (k, r)
        if isinstance(v, list) and k in VARIABLE:
            if v and rng.random() < 0.6:
                i = rng.randrange(len(v))
                if rng.random() < 0.3:
                    v.insert(i, copy.deepcopy(v[i]))
                    return "%s: duplicated element %d" % (k, i)
                del v[i]
                return "%s: dropped element %d" % (k, i)
            obj[k] = []
            return "%s: emptied" % k
        if isinstance(v, bool):
            obj[k] = not v
            return "%s: flipped" % k
        if isinstance(v, int):
            obj[k] = rng.choice([0, 1, v + 1, max(v - 1, 0), v + 7])
            return "%s: number changed" % k
        return None
    if isinstance(obj, list) and obj:
        i = rng.randrange(len(obj))
        v = obj[i]
        if isinstance(v, (dict, list)) and v and rng.random() < 0.8:
            r = mutate(v, rng, depth + 1, variable=False)
            if r:
                return "[%d].%s" % (i, r)
        if variable and rng.random() < 0.5:
            del obj[i]
            return "dropped [%d]" % i
        if isinstance(v, bool):
            obj[i] = not v
            return "[%d] flipped" % i
        if isinstance(v, int):
            obj[i] = rng.choice([0, 1, v + 1, v + 5])
            return "[%d] number changed" % i
    return None


def sources(rng):
    from harness import engine_explainer as E, engine_batch as EB, gen_batch as GB, gen_storages as GS, gen_trackers as GT
    out = []
    scs = E.fault_free_batch(rng, 12, True)
    tr, kept = E.run_scenarios(scs)
    out.append(("Trace_IncExplainer", tr, lambda t: len(t["calls"]), "calls"))
    bs = [EB.random_batch(rng, True) for _ in range(6)] + [EB.random_interval(rng, True) for _ in range(6)]
    out.append(("Trace_BatchSage", EB.strip([GB.run(s) for s in bs]), lambda t: len(t["calls"]), "calls"))
    st = [GS.record_run(k, 3, True, 0.5 if k == "geometric" else None, 9, rng.randrange(10 ** 6))
          for k in ("batch", "interval", "sequence", "uniform", "geometric")]
    out.append(("Trace_Storages", st, lambda t: len(t["ev"]), "ev"))
    out.append(("Trace_Trackers", GT.base_traces(rng, 6, 10) + GT.mv_traces(rng, 6, 10), lambda t: len(t["ev"]), "ev"))
    from harness import gen_tree as GTR
    trs = []
    for i in range(2):
        stream = GTR.Stream(rng.randrange(10 ** 6), period=150)
        cat, num = (["c1"], ["n1"]) if i % 2 == 0 else (["c1", "c"], ["n1", "b"])
        tr, _ = GTR.run_storage(cat, num, 3, 2, 5, rng.randrange(10 ** 6), 120, lambda t, st=stream: st.next(), impute_every=11)
        trs.append(tr)
    out.append(("Trace_TreeStore", trs, lambda t: len(t["ev"]), "ev"))
    import importlib
    # (Trace_C20 is not fuzzed: every number in its events is clamped by the recorder into the range in which the
    # clauses' 32-bit arithmetic cannot overflow - gen_c20.record - so out-of-range numbers cannot reach TLC)
    c11 = importlib.import_module("checks.c11")
    sw = []
    for k in (1, 3, 4):
        vals = [rng.randrange(-50, 51) for _ in range(3 * k + 2)]
        obs = c11._drive(k, vals)
        ev = []
        for v, (gm, gv, gs, gg, gwin, rs) in zip(vals, obs):
            cnt = len(gwin)
            ev.append({"v": v, "cnt": cnt, "sum": int(round(gm * cnt)), "varnum": int(round(gv * cnt * cnt)), "haswin": True,
                       "win": [int(x) for x in gwin]})
        sw.append({"k": k, "ev": ev})
    out.append(("Trace_SlidingWindow", sw, lambda t: len(t["ev"]), "ev"))
    return out


def main():
    rounds = int(sys.argv[1]) if len(sys.argv) > 1 else 3
    rng = random.Random(int(sys.argv[2]) if len(sys.argv) > 2 else 1)
    bad = 0
    for spec, traces, steps, evkey in sources(rng):
        if spec == "Trace_TreeStore":
            VARIABLE.update(TREE_ONLY)
        else:
            VARIABLE.difference_update(TREE_ONLY)
        for r in range(rounds):
            mut = copy.deepcopy(traces)
            notes = []
            for t in mut:
                # corrupt inside the events only (their number stays: the validator counts consumed events)
                evs = t[evkey]
                for _ in range(rng.choice([1, 1, 2, 3])):
                    if not evs:
                        break
                    e = rng.choice(evs)
                    notes.append(mutate(e, rng, 1))
            try:
                fails, res = tracecheck.validate(spec, mut, steps, tag="fuzz", workers=4)
                print("%s round %d: %d corruptions -> %d FAIL clauses, no evaluation error" % (spec, r, len(notes), len(fails)))
            except tlc.TLCError as e:
                bad += 1
                msg = str(e)
                i = msg.find("Error:")
                print("%s round %d: TLC EVALUATION ERROR\n   corruptions: %s\n   %s" % (spec, r, [n for n in notes if n][:12], msg[i:i + 700].replace("\n", "\n   ")))
    print("EVALUATION_ERRORS=%d" % bad)
    return 1 if bad else 0


if __name__ == "__main__":
    sys.exit(main())
