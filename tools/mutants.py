#!/usr/bin/env python3
"""Mutation analysis of the checks (complement to the hand-seeded changes): small syntactic mutants of the library are
generated, those that the repository's own test suite does not kill are handed to the quick checks of the properties
their file is anchored in; a surviving mutant that no check reports is either equivalent or a gap.

  tools/mutants.py gen  <outdir>                 enumerate mutants (one JSON line each: file, line, operator, before, after)
  tools/mutants.py test <outdir> [jobs]          run the repository tests on every mutant (copies of /repo under <outdir>/w*)
  tools/mutants.py check <outdir> [jobs]         run the mapped quick checks on the test-surviving mutants (IXAI_REPO)
  tools/mutants.py report <outdir>               summary + list of undetected survivors
Scratch only: <outdir> must be outside /repo and /verif."""
import ast
import concurrent.futures as cf
import json
import os
import shutil
import subprocess
import sys

REPO = "/repo"
HERE = os.path.dirname(os.path.dirname(os.path.abspath(__file__)))
FILES = {
    "ixai/explainer/base.py": ["C16", "C15", "C01", "C02"],
    "ixai/explainer/pfi.py": ["C02", "C15", "C17", "C04", "C20"],
    "ixai/explainer/sage/incremental.py": ["C01", "C03", "C15", "C17", "C04"],
    "ixai/explainer/sage/batch.py": ["C05", "C04", "C17", "C15"],
    "ixai/explainer/sage/interval.py": ["C05", "C17", "C15"],
    "ixai/imputer/base.py": ["C06", "C01"],
    "ixai/imputer/marginal_imputer.py": ["C06", "C04", "C01"],
    "ixai/imputer/default_imputer.py": ["C06", "C15", "C02"],
    "ixai/imputer/tree_imputer.py": ["C19", "C18"],
    "ixai/storage/base.py": ["C07", "C06"],
    "ixai/storage/batch_storage.py": ["C07", "C05"],
    "ixai/storage/interval_storage.py": ["C07", "C05"],
    "ixai/storage/sequence_storage.py": ["C07"],
    "ixai/storage/reservoir_storage.py": ["C07", "C08", "C09"],
    "ixai/storage/uniform_reservoir_storage.py": ["C07", "C08"],
    "ixai/storage/geometric_reservoir_storage.py": ["C07", "C09", "C19"],
    "ixai/storage/tree_storage.py": ["C19", "C18"],
    "ixai/utils/tracker/base.py": ["C10", "C11", "C12"],
    "ixai/utils/tracker/welford.py": ["C10", "C20", "C12", "C02"],
    "ixai/utils/tracker/exponential_smoothing.py": ["C10", "C12", "C20", "C02"],
    "ixai/utils/tracker/sliding_window.py": ["C11", "C20"],
    "ixai/utils/tracker/multi_value.py": ["C12", "C03", "C11"],
    "ixai/utils/wrappers/base.py": ["C14"],
    "ixai/utils/wrappers/sklearn.py": ["C14"],
    "ixai/utils/wrappers/river.py": ["C13", "C14"],
    "ixai/utils/validators/loss.py": ["C13"],
    "ixai/utils/validators/model.py": ["C14"],
}
CMP = {ast.Lt: ast.LtE, ast.LtE: ast.Lt, ast.Gt: ast.GtE, ast.GtE: ast.Gt, ast.Eq: ast.NotEq, ast.NotEq: ast.Eq,
       ast.Is: ast.IsNot, ast.IsNot: ast.Is, ast.In: ast.NotIn, ast.NotIn: ast.In}
BIN = {ast.Add: ast.Sub, ast.Sub: ast.Add, ast.Mult: ast.Div, ast.Div: ast.Mult, ast.Mod: ast.FloorDiv, ast.FloorDiv: ast.Mod}


class Collector(ast.NodeVisitor):
    """collects (description, function(tree copy) -> mutated) as (path to node, operator) pairs"""

    def __init__(self):
        self.sites = []
        self.counter = 0

    def generic_visit(self, node):
        node._mid = self.counter
        self.counter += 1
        if isinstance(node, ast.Compare) and len(node.ops) == 1 and type(node.ops[0]) in CMP:
            self.sites.append((node._mid, "cmp"))
        if isinstance(node, ast.BinOp) and type(node.op) in BIN:
            self.sites.append((node._mid, "bin"))
        if isinstance(node, ast.AugAssign) and type(node.op) in BIN:
            self.sites.append((node._mid, "aug"))
        if isinstance(node, ast.BoolOp):
            self.sites.append((node._mid, "bool"))
        if isinstance(node, ast.UnaryOp) and isinstance(node.op, ast.Not):
            self.sites.append((node._mid, "not"))
        if isinstance(node, ast.Constant) and not isinstance(node.value, str) and node.value is not None \
                and not isinstance(node.value, bytes):
            self.sites.append((node._mid, "const"))
            if isinstance(node.value, (int, float)) and not isinstance(node.value, bool):
                self.sites.append((node._mid, "const2"))
        if isinstance(node, (ast.Expr, ast.AugAssign)) and not (isinstance(node, ast.Expr) and isinstance(node.value, ast.Constant)):
            self.sites.append((node._mid, "del"))
        if isinstance(node, ast.Assign) and not isinstance(node.value, ast.Constant):
            self.sites.append((node._mid, "del_assign"))
        if isinstance(node, ast.If):
            self.sites.append((node._mid, "if_true"))
            self.sites.append((node._mid, "if_false"))
        if isinstance(node, ast.Call) and len(node.args) >= 2:
            self.sites.append((node._mid, "swap_args"))
        if isinstance(node, ast.Subscript) and isinstance(node.slice, ast.Constant) and isinstance(node.slice.value, int):
            self.sites.append((node._mid, "index"))
        if isinstance(node, ast.Return) and node.value is not None and not isinstance(node.value, ast.Constant):
            self.sites.append((node._mid, "ret_none"))
        super().generic_visit(node)


class Mutator(ast.NodeTransformer):
    def __init__(self, target, op):
        self.target, self.op, self.counter, self.done = target, op, 0, False

    def generic_visit(self, node):
        mid = self.counter
        self.counter += 1
        node = super().generic_visit(node)
        if mid != self.target or self.done:
            return node
        self.done = True
        op = self.op
        if op == "cmp":
            node.ops = [CMP[type(node.ops[0])]()]
        elif op in ("bin", "aug"):
            node.op = BIN[type(node.op)]()
        elif op == "bool":
            node.op = ast.Or() if isinstance(node.op, ast.And) else ast.And()
        elif op == "not":
            return node.operand
        elif op == "const":
            v = node.value
            node.value = (not v) if isinstance(v, bool) else (v + 1)
        elif op == "const2":
            v = node.value
            node.value = 0 if v != 0 else 2
        elif op in ("del", "del_assign"):
            return ast.Pass()
        elif op == "if_true":
            node.test = ast.Constant(True)
        elif op == "if_false":
            node.test = ast.Constant(False)
        elif op == "swap_args":
            node.args[0], node.args[1] = node.args[1], node.args[0]
        elif op == "index":
            node.slice = ast.Constant(node.slice.value + 1)
        elif op == "ret_none":
            node.value = ast.Constant(None)
        return node


def gen(out):
    os.makedirs(out, exist_ok=True)
    n = 0
    with open(os.path.join(out, "mutants.jsonl"), "w") as f:
        for rel in FILES:
            src = open(os.path.join(REPO, rel)).read()
            tree = ast.parse(src)
            col = Collector()
            col.visit(tree)
            base = ast.unparse(ast.parse(src))
            seen = set()
            for (mid, op) in col.sites:
                t2 = ast.parse(src)
                m = Mutator(mid, op)
                t2 = m.visit(t2)
                ast.fix_missing_locations(t2)
                try:
                    new = ast.unparse(t2)
                    compile(new, rel, "exec")
                except Exception:
                    continue
                if new == base or new in seen:
                    continue
                seen.add(new)
                # the changed line (of the unparsed text) as a description
                bl, nl = base.splitlines(), new.splitlines()
                diff = [(a, b) for a, b in zip(bl, nl) if a != b][:1] or [("", "(line count changed)")]
                f.write(json.dumps({"id": n, "file": rel, "op": op, "before": diff[0][0].strip()[:160], "after": diff[0][1].strip()[:160],
                                    "node": mid}) + "\n")
                n += 1
    print("generated %d mutants" % n)


def materialise(m, wdir):
    """fresh copy of the repository with mutant m applied"""
    if os.path.exists(wdir):
        shutil.rmtree(wdir)
    shutil.copytree(REPO, wdir, ignore=shutil.ignore_patterns(".git", "__pycache__", "*.egg-info", "docs", "examples"))
    src = open(os.path.join(REPO, m["file"])).read()
    t2 = Mutator(m["node"], m["op"]).visit(ast.parse(src))
    ast.fix_missing_locations(t2)
    open(os.path.join(wdir, m["file"]), "w").write(ast.unparse(t2) + "\n")


def run_tests(args):
    m, out = args
    wdir = os.path.join(out, "w%d" % m["id"])
    try:
        materialise(m, wdir)
        p = subprocess.run(["/venv/bin/python", "-m", "pytest", "-q", "-x", "-p", "no:cacheprovider", "--timeout=120"], cwd=wdir,
                           capture_output=True, text=True, timeout=600, env=dict(os.environ, PYTHONPATH=wdir, PYTHONHASHSEED="0"))
        tail = (p.stdout.strip().splitlines() or [""])[-1]
        ok = p.returncode == 0
    except subprocess.TimeoutExpired:
        ok, tail = False, "timeout"
    finally:
        shutil.rmtree(wdir, ignore_errors=True)
    return m["id"], ok, tail


def test(out, jobs):
    ms = [json.loads(l) for l in open(os.path.join(out, "mutants.jsonl"))]
    res = {}
    with cf.ThreadPoolExecutor(jobs) as ex:
        for i, (mid, ok, tail) in enumerate(ex.map(run_tests, [(m, out) for m in ms])):
            res[mid] = {"tests_pass": ok, "tail": tail[:120]}
            if i % 50 == 0:
                print("tested %d / %d" % (i, len(ms)), flush=True)
    json.dump(res, open(os.path.join(out, "tests.json"), "w"))
    print("survive the repository tests: %d of %d" % (sum(1 for r in res.values() if r["tests_pass"]), len(ms)))


def run_checks(args):
    m, out = args
    wdir = os.path.join(out, "c%d" % m["id"])
    verdicts = []
    try:
        materialise(m, wdir)
        for pid in FILES[m["file"]]:
            p = subprocess.run([os.path.join(HERE, "bin", "check"), pid], capture_output=True, text=True, timeout=1800,
                               env=dict(os.environ, IXAI_REPO=wdir))
            line = [l for l in p.stdout.splitlines() if l.startswith("  clause=")][:1]
            verdicts.append((pid, p.returncode, line[0][:200] if line else ""))
            if p.returncode == 1:
                break
    except subprocess.TimeoutExpired:
        verdicts.append(("?", 3, "timeout"))
    finally:
        shutil.rmtree(wdir, ignore_errors=True)
    return m["id"], verdicts


def check(out, jobs):
    ms = [json.loads(l) for l in open(os.path.join(out, "mutants.jsonl"))]
    tests = json.load(open(os.path.join(out, "tests.json")))
    todo = [m for m in ms if tests[str(m["id"])]["tests_pass"]]
    done = {}
    path = os.path.join(out, "checks.json")
    if os.path.exists(path):
        done = json.load(open(path))
    todo = [m for m in todo if str(m["id"]) not in done]
    print("checking %d test-surviving mutants" % len(todo), flush=True)
    with cf.ThreadPoolExecutor(jobs) as ex:
        for i, (mid, verdicts) in enumerate(ex.map(run_checks, [(m, out) for m in todo])):
            done[str(mid)] = verdicts
            if i % 10 == 0:
                json.dump(done, open(path, "w"))
                print("checked %d / %d" % (i, len(todo)), flush=True)
    json.dump(done, open(path, "w"))


def report(out):
    ms = {json.loads(l)["id"]: json.loads(l) for l in open(os.path.join(out, "mutants.jsonl"))}
    tests = json.load(open(os.path.join(out, "tests.json")))
    checks = json.load(open(os.path.join(out, "checks.json"))) if os.path.exists(os.path.join(out, "checks.json")) else {}
    surv = [i for i in ms if tests[str(i)]["tests_pass"]]
    det = [i for i in surv if str(i) in checks and any(v[1] == 1 for v in checks[str(i)])]
    mach = [i for i in surv if str(i) in checks and not any(v[1] == 1 for v in checks[str(i)]) and any(v[1] not in (0, 1) for v in checks[str(i)])]
    und = [i for i in surv if str(i) in checks and all(v[1] == 0 for v in checks[str(i)])]
    print("mutants %d, killed by the repository tests %d, survivors %d; of the %d survivors checked: reported %d, exit-2/timeout %d, "
          "not reported %d" % (len(ms), len(ms) - len(surv), len(surv), len([i for i in surv if str(i) in checks]), len(det), len(mach), len(und)))
    for i in mach:
        print("MACHINERY %d %s [%s] %s -> %s :: %s" % (i, ms[i]["file"], ms[i]["op"], ms[i]["before"], ms[i]["after"], checks[str(i)]))
    for i in und:
        print("UNDETECTED %d %s [%s] %s  ->  %s" % (i, ms[i]["file"], ms[i]["op"], ms[i]["before"], ms[i]["after"]))


if __name__ == "__main__":
    cmd, out = sys.argv[1], os.path.abspath(sys.argv[2])
    assert not out.startswith("/repo") and not out.startswith("/verif"), "scratch directory must be outside /repo and /verif"
    jobs = int(sys.argv[3]) if len(sys.argv) > 3 else 8
    {"gen": lambda: gen(out), "test": lambda: test(out, jobs), "check": lambda: check(out, jobs), "report": lambda: report(out)}[cmd]()
