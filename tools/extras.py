#!/usr/bin/env python3
"""Specification coverage beyond the 20 listed properties (not part of MANIFEST.json): the recording side of
ixai/visualization.  spec/Plotters.tla is model-checked with TLC and a sample of its behaviours is replayed into the real
FeatureImportancePlotter / ChangePlotter, comparing the complete recorded state.
usage: tools/extras.py [sample-size] [seed]        exit 0: conforming, 1: divergence, 2: machinery failure"""
import os
import random
import sys

sys.path.insert(0, os.path.dirname(os.path.dirname(os.path.abspath(__file__))))
sys.path.insert(0, os.environ.get("IXAI_REPO", "/repo"))
os.environ.setdefault("MPLBACKEND", "Agg")
from harness import tlc          # noqa: E402


def _fun(j):
    return j if isinstance(j, dict) else {}


def replay(b):
    from ixai.visualization import FeatureImportancePlotter, ChangePlotter
    fi, ch = FeatureImportancePlotter(feature_names=["f", "g"]), ChangePlotter()
    for h in b["hist"]:
        if h["op"] == "fi":
            d = dict(_fun(h["d"]))
            fi.update(d, facet_name=h["facet"], **({} if h["ts"] == 0 else {"timestep": h["ts"]}))
        elif h["op"] == "perf":
            fi.update_performance(h["v"], h["facet"])
        else:
            ch.update(dict(_fun(h["d"])))
    want_y = {k: [dict(_fun(d)) for d in v] for k, v in _fun(b["ydata"]).items()}
    want_x = {k: [None if t == 0 else t for t in v] for k, v in _fun(b["xdata"]).items()}
    want_p = {k: [{"perf": v} for v in vs] for k, vs in _fun(b["perf"]).items()}
    probs = []
    if fi.seen_timesteps != b["seen"] or fi.y_data != want_y or fi.x_data != want_x or fi.performance_data != want_p \
            or set(fi.stored_facets) != set(want_y):
        probs.append("FeatureImportancePlotter: seen=%r y=%r x=%r perf=%r, specification seen=%r y=%r x=%r perf=%r" % (
            fi.seen_timesteps, fi.y_data, fi.x_data, fi.performance_data, b["seen"], want_y, want_x, want_p))
    if ch.seen_timesteps != b["cseen"] or ch.y_data != _fun(b["cy"]) or ch.x_data != _fun(b["cx"]) \
            or set(ch.stored_feature_names) != set(_fun(b["cy"])) or ch.n_features_stored != len(_fun(b["cy"])):
        probs.append("ChangePlotter: seen=%r y=%r x=%r, specification seen=%r y=%r x=%r" % (
            ch.seen_timesteps, ch.y_data, ch.x_data, b["cseen"], b["cy"], b["cx"]))
    return probs


def main():
    n = int(sys.argv[1]) if len(sys.argv) > 1 else 3000
    rng = random.Random(int(sys.argv[2]) if len(sys.argv) > 2 else 1)
    try:
        r = tlc.require_ok(tlc.run("Plotters", "Plotters", tag="extras"), "Plotters")
        if r.status != "ok":
            print("Plotters.tla violates its own property %s" % r.violated)
            return 2
        e = tlc.require_ok(tlc.run("Plotters", "Plotters_emit", workers=1, tag="extras"), "Plotters_emit")
        behs = e.json_prints()
    except tlc.TLCError as ex:
        print(ex)
        return 2
    sample = behs if len(behs) <= n else rng.sample(behs, n)
    bad = 0
    for b in sample:
        for p in replay(b):
            bad += 1
            if bad <= 5:
                print("DIVERGENCE " + p[:600])
    print("EXTRAS Plotters: %d states model-checked (LockStep SeenCounts StepsIncrease AppendOnly), %d of %d behaviours replayed, "
          "%d divergences" % (r.distinct, len(sample), len(behs), bad))
    return 1 if bad else 0


if __name__ == "__main__":
    sys.exit(main())
