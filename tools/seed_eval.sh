#!/bin/bash
# usage: tools/seed_eval.sh <wt-id> <seed-name> <PROP> [more PROPs]  -- verify a seeded change and run the checks against it
WT=/tmp/wt/$1; NAME=$2; shift 2
D=/verif/seeded/$NAME; mkdir -p $D
cp $WT/patch.diff $D/patch.diff; cp $WT/demo_*.py $D/ 2>/dev/null; cp $WT/NOTES.md $D/NOTES.md 2>/dev/null
cd /repo && git status --short | grep -v '^??' && { echo "repo dirty"; exit 2; }
DEMO=$(ls $D/demo_*.py | head -1)
echo "--- demo on unchanged tree"; PYTHONPATH=/repo /venv/bin/python $DEMO >/dev/null 2>&1; echo "exit=$?"
git -C /repo apply $D/patch.diff || { echo "PATCH DOES NOT APPLY"; exit 2; }
echo "--- demo with patch"; PYTHONPATH=/repo /venv/bin/python $DEMO 2>&1 | tail -2; echo "exit=${PIPESTATUS[0]}"
echo "--- tests with patch"; (cd /repo && /venv/bin/python -m pytest -q -p no:cacheprovider --timeout=900 2>&1 | tail -1)
for id in "$@"; do echo "--- check $id with patch"; /verif/bin/check $id 2>&1 | tail -3 | cut -c1-330; done
git -C /repo checkout -- . ; git -C /repo status --short | grep -v '^??'
