#!/bin/bash
# usage: tools/fixture_eval.sh <seeded-dir-name> [IDs...]
# Applies seeded/<name>/patch.diff in a temporary worktree of /repo (never /repo itself) and runs the quick checks
# against it.  Prints one line per check: "<name> <ID> rc=<rc>".  Default IDs: the property of the seed (meta.json),
# or all 20 for benign-* fixtures.
NAME=$1; shift
HERE="$(cd "$(dirname "$0")/.." && pwd)"
D=$HERE/seeded/$NAME
WT=$(mktemp -d /tmp/fx-XXXXXX); rmdir $WT
git -C /repo worktree add --detach $WT HEAD -q || exit 2
( cd $WT && git apply $D/patch.diff ) || { echo "$NAME patch does not apply"; git -C /repo worktree remove --force $WT; exit 2; }
IDS="$@"
if [ -z "$IDS" ]; then
  case $NAME in benign-*) IDS="C01 C02 C03 C04 C05 C06 C07 C08 C09 C10 C11 C12 C13 C14 C15 C16 C17 C18 C19 C20";;
                *) IDS=$(python3 -c "import json; print(json.load(open('$D/meta.json'))['property'])");; esac
fi
for id in $IDS; do
  out=$(IXAI_REPO=$WT $HERE/bin/check $id 2>&1); rc=$?
  echo "$NAME $id rc=$rc :: $(echo "$out" | grep -E '^  clause=' | head -1 | cut -c1-160)"
done
git -C /repo worktree remove --force $WT; git -C /repo worktree prune
