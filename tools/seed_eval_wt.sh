#!/bin/bash
# usage: tools/seed_eval_wt.sh <wt-id> <seed-name> <PROP> [more PROPs]
# Like seed_eval.sh but runs everything against the scratch worktree /tmp/wt/<wt-id> (patch applied there), never /repo.
WT=/tmp/wt/$1; NAME=$2; shift 2
D=/verif/seeded/$NAME; mkdir -p $D
cp $WT/patch.diff $D/patch.diff; cp $WT/demo_*.py $D/ 2>/dev/null; cp $WT/NOTES.md $D/NOTES.md 2>/dev/null
DEMO=$(ls $D/demo_*.py | head -1)
cd $WT || exit 2
git apply -R --check patch.diff 2>/dev/null || git apply patch.diff     # make sure the patch is applied
git apply -R patch.diff
echo "--- demo on unchanged worktree"; PYTHONPATH=$WT /venv/bin/python $DEMO >/dev/null 2>&1; echo "exit=$?"
git apply patch.diff
echo "--- demo with patch"; PYTHONPATH=$WT /venv/bin/python $DEMO 2>&1 | tail -2; echo "exit=${PIPESTATUS[0]}"
echo "--- tests with patch"; /venv/bin/python -m pytest -q -p no:cacheprovider --timeout=900 2>&1 | tail -1
for id in "$@"; do echo "--- check $id with patch (IXAI_REPO=$WT)"; IXAI_REPO=$WT "$(cd "$(dirname "$0")/.." && pwd)"/bin/check $id 2>&1 | tail -3 | cut -c1-330; done
