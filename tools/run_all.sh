#!/bin/bash
# usage: tools/run_all.sh quick|thorough   -- runs every check of the manifest sequentially, prints one line per check
TIER=${1:-quick}
cd "$(dirname "$0")/.."
for id in C01 C02 C03 C04 C05 C06 C07 C08 C09 C10 C11 C12 C13 C14 C15 C16 C17 C18 C19 C20; do
  s=$(date +%s)
  out=$(bin/check $id --tier $TIER 2>&1); rc=$?
  e=$(date +%s)
  echo "$id rc=$rc $((e-s))s :: $(echo "$out" | tail -1 | cut -c1-200)"
  if [ $rc -ne 0 ]; then echo "$out" | tail -15 | cut -c1-300; fi
done
