#!/bin/bash
# usage: tools/seed_sweep.sh <tier> <seed> [<seed> ...]  -- every check under several VERIF_SEEDs (false-alarm hunt)
TIER=$1; shift
cd "$(dirname "$0")/.."
for seed in "$@"; do
  for id in C01 C02 C03 C04 C05 C06 C07 C08 C09 C10 C11 C12 C13 C14 C15 C16 C17 C18 C19 C20; do
    out=$(VERIF_SEED=$seed bin/check $id --tier $TIER 2>&1); rc=$?
    if [ $rc -ne 0 ]; then echo "seed=$seed $id rc=$rc"; echo "$out" | tail -12 | cut -c1-400; else echo "seed=$seed $id ok"; fi
  done
done
