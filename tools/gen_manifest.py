#!/usr/bin/env python3
"""Builds /verif/MANIFEST.json from the table below (single source of truth for the interface)."""
import json
import os

HERE = os.path.dirname(os.path.dirname(os.path.abspath(__file__)))
PROPS = [json.loads(l)["id"] for l in open(os.path.join(HERE, "properties.jsonl"))]

# id -> (technique, level text, level note, design ref)
CHECKS = {
 "C01": ("TLC exhaustive model checking of IncExplainer.tla (Efficiency invariant) and of the atomic AbsExplainer.tla it refines (TLC refinement check Refine_IncExplainer.tla) + TLAPS proof of the identity for streams of any length (EffProof.tla, bound by the TLC action property CommitIsLinear) + TLC behaviours replayed into IncrementalSage + TLC trace validation of recorded explain_one calls in GF(p)",
         "Efficiency is a state invariant of the TLA+ specification, checked by TLC in every reachable state (all orders, row draws, reservoir outcomes, fault positions) for small constants; the code is bound to the specification by replaying every TLC behaviour into the real class (exact Fractions) and by validating recorded executions over the configuration product with TLC (the identity is evaluated on every logged state).",
         "callbacks deterministic; exact identity checked mod p=46337 on Fraction runs; floats within an explicit tolerance; model bounds d<=3, n_inner<=2, <=4 calls (TLC) and d<=4, <=60 calls (traces)", "§4 C01"),
 "C02": ("TLC model checking of IncExplainer.tla in PFI mode (RunningStatistic, ContributionDefinition, FirstCallSeedsOnly) + behaviour replay + TLC trace validation in GF(p)",
         "The specification derives the importance/variance as the closed-form running statistic of declaratively defined contributions (TLC invariants); every recorded explain_one transition of the real IncrementalPFI is checked by TLC against the specification's step from the logged pre-state, and TLC behaviours are replayed into the code.",
         "deterministic callbacks; GF(p) identity testing (error <= deg/p per step); float twin runs with tolerance", "§4 C02"),
 "C03": ("TLC model checking of IncExplainer.tla in SAGE mode + behaviour replay + TLC trace validation (argument and value clauses) in GF(p)",
         "Chain structure, mean-then-loss, contribution, tracker commits and offsets are invariants / step functions of the specification; TLC validates every recorded call (subsets handed to the imputer, arguments of each loss call, all five trackers) and TLC behaviours are replayed into IncrementalSage.",
         "as C02; label sets grow in both model tables", "§4 C03"),
 "C04": ("TLC constant-level evaluation (Expectation.tla: expected contribution over all orders x row draws = Shapley / PFI value, exact rationals) + exact expectation of the real code by enumerating every outcome of its random draws + draw kind/range conformance along TLC behaviours + calibrated frequency statistics",
         "The unbiasedness theorem is an ASSUME of the specification evaluated exactly by TLC; the real explainers' exact expected contribution for the same instance is obtained by depth-first enumeration of all their draws (scripted RNG tape) and must equal the value TLC printed, fraction for fraction; TLC behaviours replayed into the code check that it asks for draws of the specified kind and range.",
         "global generators trusted uniform; instances d<=3, rows<=3, n_inner<=2; frequencies at 1e-10 per cell", "§4 C04"),
 "C05": ("TLC model checking of IntervalSage.tla (schedule action properties, window, efficiency over all flag interleavings) and MC_BatchSage.tla (efficiency for every order and row draw, both modes) + behaviour replay into BatchSage + TLC trace validation (Trace_BatchSage.tla)",
         "Schedule, window and efficiency are TLC invariants / action properties over all interleavings of forced and unforced calls; TLC behaviours are replayed into BatchSage and every recorded call of BatchSage (four entry points) and IntervalSage is validated by TLC (exactly for dyadic sizes, with float tolerance otherwise).",
         "BatchSage accumulates in floats; original mode assumes the explained names cover the model's features", "§4 C05"),
 "C06": ("TLC exhaustive model checking of MC_Imputers.tla (all subsets, storages, draws) + every behaviour replayed into MarginalImputer / DefaultImputer with scripted row draws + imputer clauses on explainer traces validated by TLC",
         "AgreesOutside, InsideFromBackground, JointNeverMixes, EmptySubsetIsIdentity are TLC invariants; each enumerated case is replayed into the real imputers for six subset container types and four storage kinds (model inputs, predictions, non-mutation), and imputer calls inside recorded explainer runs are checked by TLC.",
         "values encode their origin (instance / row / default); TreeImputer is covered by C19", "§4 C06"),
 "C07": ("TLC exhaustive model checking of Storages.tla (5 kinds, every reservoir outcome) + Apalache inductive invariants for streams of any length and TLAPS proofs for any capacity (StoreInd.tla / StoreIndProof.tla, kernels bound to Storages.tla by TLC) + behaviour replay into the deterministic storages and the p=1 reservoir + TLC trace validation with the reservoir outcome inferred",
         "Sub-multiset, count, alignment and the per-kind content laws are TLC invariants over all update sequences and all accept/slot outcomes; every recorded update of the five real classes must be a specification successor of the logged content (TLC infers the random outcome).",
         "x and y carry different encodings of the arrival id; reservoir outcomes that need an assumption on how a uniform draw maps to acceptance are only validated in direction B", "§4 C07"),
 "C08": ("TLC distribution-transformer model checking (ReservoirLaw.tla, exact rationals: UniformSubsets, UniformInclusion) + AlgorithmL.tla control structure with StaleW negative control + calibrated statistics of the code against the TLC-exported law + white-box skip check",
         "The law (every k-subset equally likely) is a TLC invariant of the specification's push-forward kernel; the implementation's Algorithm L has a continuous hidden weight, so the code is bound statistically: seeded runs against the exported law with exact binomial tails at 1e-10 per cell, plus a deterministic check that each new skip is computed from the updated weight.",
         "global generators trusted uniform; statistical binding (false alarm < 1e-8 per run, deterministic per VERIF_SEED)", "§4 C08"),
 "C09": ("TLC distribution-transformer model checking (ReservoirLaw.tla: GeometricLaw, AlwaysStoredWhenPOne) + exact distribution of the real class by enumerating its draws, compared with TLC's pmf after every arrival",
         "The inclusion law is a TLC invariant in exact rationals for p in {0,1/3,1/2,2/3,1,1/k}; the exact distribution of GeometricReservoirStorage (all uniform draws on an aligned grid x all slots, equal states merged) equals the pmf exported by TLC state for state.",
         "acceptance region located on a 60-cell grid aligned with p; generators trusted uniform", "§4 C09"),
 "C10": ("TLC exhaustive model checking of Trackers.tla closed forms over exact rationals + every TLC state replayed into the trackers + TLC validation of recorded transitions in GF(p)",
         "All streams over a 5-letter alphabet up to length 5-7 are enumerated by TLC with the closed forms, linearity, hull and shift/scale laws as invariants; each state is replayed into the real classes (Fraction, float, NumPy) and generic transitions of the code are validated by TLC as polynomial identities.",
         "induction over the stream length is at the specification level; the code's single step is bound by identity testing mod p", "§4 C10"),
 "C11": ("TLC model checking of the ring-buffer specification (WindowIsLastK, WrapBug negative control) + Apalache inductive invariant for streams of any length and TLAPS proof for any window length (SWInd.tla / SWIndProof.tla, step bound to Trackers!SWUpd by TLC) + replay of all (k, n) states + TLC trace validation with TLC carrying the window",
         "The window content is an invariant over all k <= 5 and n <= 2k+3; every state is driven through SlidingWindowTracker and random integer streams are validated by TLC, which carries the specification's buffer.",
         "float statistics compared with explicit tolerance", "§4 C11"),
 "C12": ("TLC model checking of MVUpd/MVNorm over all update-dictionary sequences + Apalache inductive invariant and TLAPS proof of the counting skeleton for any key set and any number of updates (MVInd.tla / MVIndProof.tla, bound to MVUpd by TLC) + replay with six numeric types + TLC trace validation in GF(p)",
         "Per-key independence, zero-fill, key monotonicity and the normalisation cases are TLC invariants / action properties; every TLC state is replayed with int, float, Fraction and NumPy scalars (finiteness included).",
         "zero test compared between Q and GF(p), disagreeing cases skipped and counted", "§4 C12"),
 "C13": ("TLC model checking of MetricLoss.tla (shared metric as a bag; probe/update/get/revert micro-steps; NoRevert negative control) + every TLC call history replayed on all river metrics accepted by validate_loss_function",
         "BagUnchanged and ValueIsSingle are TLC invariants over all call histories by several wrappers sharing one metric; each enumerated history is replayed on the 41 accepted river metrics with a fresh-metric oracle for the single-pair value, the metric's state compared after every call, plus 200-10000-call random histories and a routing check through recording metric subclasses.",
         "metrics of the installed river version, default constructor arguments; zero counts left in confusion matrices are unobservable", "§4 C13"),
 "C14": ("TLC case enumeration Wrappers.tla (shape x batch x feature_names x key order; river label state machine with OneHot invariant), each state one implementation test of SklearnWrapper / TorchWrapper / RiverWrapper + dispatch over installed model classes",
         "The canonical form, batch = row-wise, order independence with names and the one-hot-over-seen-labels law are stated in the specification; TLC enumerates the cases and the harness executes each against the real wrappers with stub prediction functions whose outputs encode which inputs reached them.",
         "installed sklearn / river / torch versions; stub prediction functions", "§4 C14"),
 "C15": ("TLC case enumeration ContractMatrix.tla (one implementation test per state) + TLC invariants/action properties of IncExplainer.tla (budget, store-once-after, no self background) + TLC refinement to the atomic AbsExplainer.tla (a returning call = one Explain step) + TLC trace validation of contract clauses",
         "The configuration matrix is enumerated by TLC and each state constructed and exercised on the real classes; the call contract (model budget, seen counter, storage update once and last, arguments untouched, returned dict) is checked by TLC on recorded calls and as invariants of the specification.",
         "budget stated for the default imputer; 1200 configurations, short streams", "§4 C15"),
 "C16": ("TLC case enumeration NormConf.tla in exact rationals (RatiosKept, SumIsOne, RangeIsOne, ZeroFallbackAllZero, BoundWellFormed), each state one implementation test per numeric type + bounds on reachable explainer states + VarNonNegative invariant of IncExplainer.tla",
         "All importance dictionaries of <= 3 values in -2..2 x both modes and a variance x alpha x t x delta grid are enumerated by TLC with the normalisation laws as invariants; every state is executed against _normalize_importance_values / get_normalized_importance_values with int, float, Fraction and NumPy scalars, and get_confidence_bound against the specification's BoundSq.",
         "a bound is required to equal the formula (non-negative, finite); tolerance 1e-9 (1e-6 float32)", "§4 C16"),
 "C17": ("TLC model checking with a Fault action at every callback step (FaultAtomic, Efficiency; CommitEarly negative controls) + TLAPS proof of FaultAtomic over the control skeleton for any d / n_inner / number of calls (CtlSkeleton.tla, refined by IncExplainer.tla per TLC) + TLC refinement check: the micro-step specification implements the atomic AbsExplainer.tla, a failed call being a stuttering step (witness and existential form; old commit order refuted) + replay of all TLC fault behaviours into the code + enumerated fault injection validated by TLC",
         "Every (call, callback) fault position of the bounded model is explored by TLC and replayed into the real explainers; random scenarios get every fault position injected in turn and TLC checks atomicity and the efficiency identity of the continued stream.",
         "single and double faults; `seen` after a failed call left open", "§4 C17"),
 "C18": ("TLC behaviours replayed with the RNG tape in script mode (the run must be a function of stream and tape: every choice requested from the global generators with the specified kind/range, none left unconsumed, state equal to the specification's) + TLC trace validation of draw clauses + same-process and two-fresh-process replays compared bit for bit",
         "In the specification every nondeterministic choice is an explicit draw action; replaying TLC behaviours with all draws scripted shows the implementation takes exactly those choices from Python's/NumPy's global generators; recorded runs are validated by TLC (feature order = logged permutation draw, background rows and replaced slots = logged uniform draws); the literal experiment runs 59 explainer x storage x imputer configurations in separate interpreter processes (one with decoy objects, junk allocations and a delay before seeding).",
         "same interpreter configuration (PYTHONHASHSEED fixed); river trees reproducible given their seed", "§4 C18"),
 "C19": ("TLC model checking of TreeStore.tla (reservoir bookkeeping under an unrestricted tree environment; LazyPurge negative control) + TLC trace validation of every update of the real TreeStorage on drifting streams (leaf set, routed leaf, reservoirs before/after) and of TreeImputer calls",
         "ReservoirKeysAreLeaves, ReservoirBounded, ContentsObserved, NewestInRoutedLeaf hold in the specification whatever river's trees do; every recorded update must be the specification's step for the logged leaf set (TLC infers the slot), including a pinned history on which stale reservoirs were observed; TreeImputer model inputs are checked against the routed leaf's reservoir contents.",
         "river's trees are environment; leaf ids are the library's path strings, their number cross-checked by an independent traversal", "§4 C19"),
 "C20": ("TLC trace validation (Trace_C20.tla) of float Welford / exponential-smoothing results on offset-ill-conditioned short streams: exact values derived by the shift lemmas (TLC invariants ShiftMean/ShiftVar/ShiftES of MC_Trackers) and the property's bounds evaluated in scaled integer arithmetic; textbook-variance negative control; float explainer runs with losses 2^30+delta validated exactly in GF(p)",
         "Claimed at reduced scope: for streams s*(2^e+delta), |delta|<=6, n<=32, kappa 2^27..2^30, five orderings, alpha in {1/2,1/4,1/8}, TLC checks |mean_f-mean| <= 8 n u max|v|, |var_f-var| <= 8 n u kappa var, |es_f-es| <= 8 u max|v|/alpha and finiteness on the re-represented double results of the real trackers; the shipped code stays below 1 unit, the textbook formula is rejected.",
         "the error growth over 10^4..10^6 values and magnitudes outside exactly representable families are NOT evaluated (TLC has no floats, 32-bit integers); C = 8", "§4 C20 / Appendix C"),
}

NOT_YET = "check not built yet in this session (planned: see DESIGN.md section 4)"


def main():
    checks = []
    for pid, (tech, text, note, ref) in CHECKS.items():
        checks.append({
            "property_id": pid,
            "quick_cmd": "bin/check %s --tier quick" % pid,
            "thorough_cmd": "bin/check %s --tier thorough" % pid,
            "evidence_file": "/verif/evidence/%s.json" % pid,
            "replay_cmd_template": "bin/check %s --replay {path}" % pid,
            "engine": "tlc+harness",
            "level_claimed": {"category": "model_checking", "text": text, "design_ref": ref},
            "level_note": note,
            "technique": tech,
        })
    na_file = os.path.join(HERE, "tools", "not_applicable.json")
    na_reasons = json.load(open(na_file)) if os.path.exists(na_file) else {}
    na = [{"property_id": p, "reason": na_reasons.get(p, NOT_YET)} for p in PROPS if p not in CHECKS]
    m = {
        "version": 1,
        "setup_cmd": "bin/setup",
        "hooks": {
            "guard": "IXAI_VERIF",
            "enable": "no source hooks: IXAI_VERIF=1 (set by bin/check) only enables harness-side proxies (callback proxies, RNG tape, fault injection); /repo is imported from its working tree on every run",
            "baseline_off_cmd": "cd /repo && /venv/bin/python -m pytest -ra -q -p no:cacheprovider --timeout=900 --continue-on-collection-errors",
            "source_commits": [],
            "add_only": True,
        },
        "engines": [
            {"name": "tlc+harness", "path": "/verif/bin/check",
             "serves_properties": sorted(CHECKS),
             "kind_free_text": "TLA+ specifications under /verif/spec checked with TLC (exhaustive, simulation, constant-level, trace validation); Python harness under /verif/harness replays TLC behaviours into the implementation and records implementation traces for TLC"},
        ],
        "checks": checks,
        "not_applicable": na,
        "notes": "All checks: exit 0 held / exit 1 + VIOLATION line / exit 2 machinery failure. known_findings.json lists repaired defects (fixed: ...) and recorded findings.",
    }
    with open(os.path.join(HERE, "MANIFEST.json"), "w") as f:
        json.dump(m, f, indent=1)


if __name__ == "__main__":
    main()
