"""Direction B: validate batches of traces recorded from the implementation with TLC."""
import json
import os
import uuid

from harness import tlc

WORK = tlc.WORK


def validate(spec, traces, steps_of, cfg=None, workers=8, timeout=3000, tag=None, extra_env=None, heap="6g"):
    """Run trace spec `spec` over `traces` (a JSON-serialisable list).

    steps_of(trace) -> number of steps TLC takes for that trace; used to verify that every
    trace was consumed to its last event (distinct states == sum(steps + 1)).
    Returns (fails, result) where fails is a list of (clause, tid (0-based), l (1-based)).
    """
    os.makedirs(os.path.join(WORK, "traces"), exist_ok=True)
    fn = os.path.join(WORK, "traces", "%s-%s.json" % (tag or spec, uuid.uuid4().hex[:8]))
    with open(fn, "w") as f:
        json.dump(traces, f)
    env = {"TRACE_FILE": fn}
    if extra_env:
        env.update(extra_env)
    try:
        res = tlc.run(spec, cfg or spec, workers=workers, env=env, timeout=timeout, tag=tag, heap=heap)
    finally:
        try:
            os.remove(fn)
        except OSError:
            pass
    tlc.require_ok(res, "trace validation %s" % spec)
    if res.status == "violation":
        raise tlc.TLCError("trace spec %s reported an invariant violation (%s); trace specs only use FAIL "
                           "clauses:\n%s" % (spec, res.violated, res.counterexample[:3000]))
    expected = sum(steps_of(t) + 1 for t in traces)
    if res.distinct != expected:
        raise tlc.TLCError("trace validation %s consumed %d states, expected %d (a trace was not consumed "
                           "to its end)\n%s" % (spec, res.distinct, expected, res.stdout[-3000:]))
    fails = []
    seen = set()
    for f in res.fails():
        clause, tid, l = f[1], f[2] - 1, f[3]
        extra = tuple(f[4:]) if len(f) > 4 else ()
        key = (clause, tid, l) + tuple(map(str, extra))
        if key in seen:
            continue
        seen.add(key)
        fails.append((clause, tid, l) + extra)
    return fails, res
