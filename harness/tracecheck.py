"""Direction B: validate batches of traces recorded from the implementation with TLC."""
import json
import os
import uuid

from harness import tlc

WORK = tlc.WORK


MAX_BATCH_BYTES = 6_000_000


def validate(spec, traces, steps_of, cfg=None, workers=8, timeout=3000, tag=None, extra_env=None, heap="6g"):
    """Validate a batch; large batches are split into several TLC runs (a 40 MB JSON file made TLC's Json module
    fail).  Returns (fails, result) with trace ids relative to `traces`; the counters of the returned result are
    summed over the runs."""
    sizes = [len(json.dumps(t)) for t in traces]
    if sum(sizes) <= MAX_BATCH_BYTES or len(traces) <= 1:
        return _validate_one(spec, traces, steps_of, cfg, workers, timeout, tag, extra_env, heap)
    chunks, cur, cur_size, start = [], [], 0, 0
    for i, (t, sz) in enumerate(zip(traces, sizes)):
        if cur and cur_size + sz > MAX_BATCH_BYTES:
            chunks.append((start, cur))
            cur, cur_size, start = [], 0, i
        cur.append(t)
        cur_size += sz
    if cur:
        chunks.append((start, cur))
    all_fails, total = [], None
    for (off, chunk) in chunks:
        fails, res = _validate_one(spec, chunk, steps_of, cfg, workers, timeout, tag, extra_env, heap)
        all_fails += [(f[0], f[1] + off) + tuple(f[2:]) for f in fails]
        if total is None:
            total = res
        else:
            total.generated += res.generated
            total.distinct += res.distinct
            total.wall += res.wall
            total.prints += res.prints
    return all_fails, total


def _validate_one(spec, traces, steps_of, cfg=None, workers=8, timeout=3000, tag=None, extra_env=None, heap="6g"):
    """Run trace spec `spec` over `traces` (a JSON-serialisable list).

    steps_of(trace) -> number of steps TLC takes for that trace; used to verify that every
    trace was consumed to its last event (distinct states == sum(steps + 1)).
    Returns (fails, result) where fails is a list of (clause, tid (0-based), l (1-based)).
    """
    os.makedirs(os.path.join(WORK, "traces"), exist_ok=True)
    fn = os.path.join(WORK, "traces", "%s-%s.json" % (tag or spec, uuid.uuid4().hex[:8]))
    with open(fn, "w") as f:
        json.dump(traces, f)
    env = {"TRACE_FILE": fn}
    if extra_env:
        env.update(extra_env)
    try:
        res = tlc.run(spec, cfg or spec, workers=workers, env=env, timeout=timeout, tag=tag, heap=heap)
    finally:
        try:
            os.remove(fn)
        except OSError:
            pass
    tlc.require_ok(res, "trace validation %s" % spec)
    if res.status == "violation":
        raise tlc.TLCError("trace spec %s reported an invariant violation (%s); trace specs only use FAIL "
                           "clauses:\n%s" % (spec, res.violated, res.counterexample[:3000]))
    expected = sum(steps_of(t) + 1 for t in traces)
    if res.distinct != expected:
        raise tlc.TLCError("trace validation %s consumed %d states, expected %d (a trace was not consumed "
                           "to its end)\n%s" % (spec, res.distinct, expected, res.stdout[-3000:]))
    fails = []
    seen = set()
    for f in res.fails():
        clause, tid, l = f[1], f[2] - 1, f[3]
        extra = tuple(f[4:]) if len(f) > 4 else ()
        key = (clause, tid, l) + tuple(map(str, extra))
        if key in seen:
            continue
        seen.add(key)
        fails.append((clause, tid, l) + extra)
    return fails, res
