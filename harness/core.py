"""Check context: collects what a check explored, its verdict, evidence and replay files.

Exit codes (see DESIGN.md §3.7): 0 held / 1 violation (+ VIOLATION line) / 2 machinery failure.
"""
import json
import os
import sys
import time
import traceback

VERIF = os.path.dirname(os.path.dirname(os.path.abspath(__file__)))
REPO = os.environ.get("IXAI_REPO", "/repo")
# evidence/ only ever describes runs against /repo itself; runs against a scratch worktree (IXAI_REPO, used to evaluate
# seeded changes) write their evidence next to the other scratch output
EVID = os.path.join(VERIF, "evidence") if os.path.realpath(REPO) == os.path.realpath("/repo") else os.path.join(VERIF, ".work", "evidence-scratch")
_SCRATCH = os.path.realpath(REPO) != os.path.realpath("/repo")
# (several checks of one property may run at the same time against different scratch worktrees - mutation analysis,
# fixture sweeps: each such process gets replay files of its own, so that clearing the directory at the start of one run
# cannot pull it away under another)
REPLAYS = os.path.join(VERIF, "replays") if not _SCRATCH else os.path.join(VERIF, ".work", "replays-scratch", str(os.getpid()))
MAX_REPLAY_FILES = 40
KNOWN = os.path.join(VERIF, "known_findings.json")


def seed_from_env(default=20261002):
    try:
        return int(os.environ.get("VERIF_SEED", default))
    except ValueError:
        return default


class Finding:
    def __init__(self, clause, key, detail, replay):
        self.clause = clause      # e.g. "sage.importance"
        self.key = key            # stable identification of the failing input / call site
        self.detail = detail
        self.replay = replay


class Ctx:
    def __init__(self, pid, tier, seed):
        self.pid = pid
        self.tier = tier
        self.seed = seed
        self.t0 = time.time()
        self.states = 0
        self.transitions = 0
        self.traces = 0
        self.evaluations = 0
        self.samples = []
        self.stages = []          # list of dicts (name, kind, counts)
        self.findings = []
        self.assumptions = []
        self.skipped = {}
        self.clauses = {}
        self.exhaustive = False
        self.notes = []
        self.cmds = []
        self.coverage_actions = {}
        self._nontrivial = set()

    # ---- accounting
    def add_tlc(self, name, res, kind="model_checking", **extra):
        self.states += res.distinct
        self.transitions += res.generated
        d = dict(name=name, kind=kind, states=res.distinct, transitions=res.generated, depth=res.depth,
                 wall_s=round(res.wall, 2), status=res.status)
        d.update(extra)
        if res.coverage:
            d["action_coverage"] = {k: v[1] for k, v in sorted(res.coverage.items())}
            for k, v in res.coverage.items():
                self.coverage_actions[k] = self.coverage_actions.get(k, 0) + v[1]
        self.stages.append(d)
        self.cmds.append(res.cmd)
        return d

    def add_stage(self, name, kind, **counts):
        d = dict(name=name, kind=kind)
        d.update(counts)
        self.stages.append(d)
        return d

    def sample(self, obj, limit=6):
        if len(self.samples) < limit:
            self.samples.append(obj)

    def nontrivial(self, key):
        self._nontrivial.add(key)

    def count_clause(self, clause, n=1):
        self.clauses[clause] = self.clauses.get(clause, 0) + n

    def skip(self, clause, n=1):
        self.skipped[clause] = self.skipped.get(clause, 0) + n

    def assume(self, text):
        if text not in self.assumptions:
            self.assumptions.append(text)

    # ---- violations
    def violation(self, clause, key, detail, replay_obj=None):
        os.makedirs(os.path.join(REPLAYS, self.pid), exist_ok=True)
        fn = os.path.join(REPLAYS, self.pid, "%s-%03d.json" % (clause.replace("/", "_").replace(" ", "_"), len(self.findings)))
        if len(self.findings) < MAX_REPLAY_FILES:
            with open(fn, "w") as f:
                json.dump(dict(property=self.pid, clause=clause, key=key, detail=detail, replay=replay_obj,
                               tier=self.tier, seed=self.seed), f, indent=1, default=str)
        else:       # a badly broken tree produces 10^5 findings: all are counted, the first ones are kept as replay files
            fn = self.findings[0].replay
        self.findings.append(Finding(clause, key, detail, fn))

    # ---- finish
    def finish(self, level="model_checking"):
        known = load_known()
        unknown = []
        printed = set()
        for f in self.findings:
            k = match_known(known, self.pid, f)
            if k is not None:
                line = "KNOWN-FINDING: property=%s %s" % (self.pid, k["what"])
                if line not in printed:
                    print(line)
                    printed.add(line)
            else:
                unknown.append(f)
        wall = time.time() - self.t0
        cov = dict(
            states=int(self.states), transitions=int(self.transitions),
            traces_validated_against_impl=int(self.traces),
            samples=self.samples if self.samples else ["(no sample recorded)"],
            evaluations=int(self.evaluations),
            distinct_nontrivial=len(self._nontrivial),
            rule="distinct_nontrivial counts distinct scenario keys (configuration + stream/behaviour id) that reached "
                 "at least one evaluated clause of this property",
            exhaustive=bool(self.exhaustive),
            stages=self.stages, clauses_evaluated=self.clauses, clauses_skipped=self.skipped,
            action_coverage=self.coverage_actions, commands=self.cmds[:40], notes=self.notes,
        )
        ev = dict(property_id=self.pid, tier=self.tier, seed=int(self.seed), level=level, coverage=cov,
                  assumptions=self.assumptions, wall_s=round(wall, 2), violations=len(unknown))
        os.makedirs(EVID, exist_ok=True)
        with open(os.path.join(EVID, self.pid + ".json"), "w") as f:
            json.dump(ev, f, indent=1, default=str)
        if unknown:
            seen = set()
            for f in unknown:
                if (f.clause, f.key) in seen:
                    continue
                seen.add((f.clause, f.key))
                if len(seen) <= 12:
                    print("  clause=%s key=%s :: %s" % (f.clause, f.key, str(f.detail)[:400]))
            print("VIOLATION property=%s replay=%s" % (self.pid, unknown[0].replay))
            return 1
        print("OK property=%s tier=%s states=%d transitions=%d traces=%d evaluations=%d wall=%.1fs" % (
            self.pid, self.tier, self.states, self.transitions, self.traces, self.evaluations, wall))
        return 0


def load_known():
    if not os.path.exists(KNOWN):
        return {"findings": [], "fixed": []}
    with open(KNOWN) as f:
        return json.load(f)


def match_known(known, pid, finding):
    for k in known.get("findings", []):
        if k.get("property") != pid:
            continue
        if k.get("clause") == finding.clause and k.get("key") == finding.key:
            return k
    return None


def main_wrapper(fn, pid, tier, seed):
    """Run a check function; map unexpected exceptions to exit code 2."""
    try:
        return fn(tier, seed)
    except SystemExit:
        raise
    except Exception as e:
        traceback.print_exc()
        where = _raised_inside_library(e)
        if where is not None:
            # The library itself raised on an input that every check feeds it on the unchanged tree without any
            # exception: the behaviour under test changed.  This is a verdict, not a machinery failure.
            ctx = Ctx(pid, tier, seed)
            ctx.assume("the check was cut short: the library raised on an input of the check's own drivers, which the "
                       "unchanged tree accepts")
            ctx.violation("library.raised", "%s at %s" % (type(e).__name__, where),
                          "".join(traceback.format_exception(type(e), e, e.__traceback__))[-3000:], None)
            return ctx.finish()
        print("MACHINERY-FAILURE property=%s (exit 2; not a violation)" % pid)
        return 2


def _raised_inside_library(exc):
    """file:function of the innermost frame if the exception was raised by code of the library under test (and is not
    one of the harness' own signals); None otherwise."""
    if type(exc).__name__ in ("TLCError", "NotObservable", "Unrepresentable", "TapeMismatch", "TapeExhausted", "Boom") \
            or isinstance(exc, (KeyboardInterrupt, MemoryError, ImportError)):
        return None
    # the deepest frame that belongs either to the library or to this framework decides: an exception raised by the
    # library itself or by something the library called (NumPy, the standard library) is the library's; one raised by a
    # harness callback the library called (model, loss, storage proxies) or by the harness itself is not
    lib = os.path.realpath(os.path.join(REPO, "ixai")) + os.sep
    own = os.path.realpath(VERIF) + os.sep
    tb = exc.__traceback__
    decisive = None
    while tb is not None:
        fn = os.path.realpath(tb.tb_frame.f_code.co_filename)
        if fn.startswith(lib):
            decisive = ("lib", "%s:%s" % (fn[len(lib):], tb.tb_frame.f_code.co_name))
        elif fn.startswith(own):
            decisive = ("own", None)
        tb = tb.tb_next
    if decisive and decisive[0] == "lib":
        return decisive[1]
    return None
