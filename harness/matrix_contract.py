"""C15: one implementation test per state of spec/ContractMatrix.tla."""
import random
import warnings
from fractions import Fraction as F

import numpy as np

from harness import gen_explainer as G

warnings.filterwarnings("ignore")


def run_config(item):
    """Returns list of (clause, detail)."""
    import ixai
    from ixai.storage import IntervalStorage, BatchStorage, GeometricReservoirStorage
    from ixai.imputer import MarginalImputer
    cfg = item["cfg"]
    d = cfg["d"]
    names = G.NAME_SCHEMES[cfg["names"]](d)
    names_copy = list(names)
    counter = {"model": 0}

    def model(x):
        if not isinstance(x, dict):
            return [model(xi) for xi in x]
        counter["model"] += 1
        return {"output": sum((i + 1) * float(x[nm]) for i, nm in enumerate(names)) + 0.5}

    def loss(y_true, y_pred):                       # the documented positional signature
        return (float(y_true) - y_pred["output"]) ** 2

    cls = getattr(ixai, cfg["cls"])
    kw = {}
    if cfg["setting"] != "default":
        kw["dynamic_setting"] = cfg["setting"] == "dynamic"
    if cfg["alpha"] != "omitted":
        kw["smoothing_alpha"] = 0.5 if cfg["alpha"] == "half" else 1.0
    if cfg["ninner"] != 1:
        kw["n_inner_samples"] = cfg["ninner"]
    if cfg["parts"] == "given":
        if cfg["cls"] == "IntervalSage":
            st = IntervalStorage(size=5, store_targets=True)
        elif cfg["cls"] == "BatchSage":
            st = BatchStorage(store_targets=True)
        else:
            st = GeometricReservoirStorage(size=5, store_targets=False)
        kw["storage"] = st
        kw["imputer"] = MarginalImputer(model, "joint", st)
    probs = []
    random.seed(1)
    np.random.seed(1)
    try:
        if cfg["cls"] in ("BatchSage", "IntervalSage"):
            ex = cls(model, names, loss, **kw)
        else:
            ex = cls(model, loss, names, **kw)
    except Exception as e:
        return [("matrix.construct", "%s(%s) raised %s: %s" % (cfg["cls"], sorted(kw), type(e).__name__, str(e)[:160]))]
    rng = random.Random(5)
    for k in range(1, 5):
        x = {nm: float(rng.randrange(-3, 4)) for nm in names}
        x_copy = dict(x)
        y = rng.randrange(0, 3)
        counter["model"] = 0
        try:
            if cfg["cls"] == "BatchSage":
                ret = ex.explain_one(x, y, verbose=False)
            elif cfg["cls"] == "IntervalSage":
                ret = ex.explain_one(x, y, verbose=False)
            else:
                ret = ex.explain_one(x, y)
        except Exception as e:
            probs.append(("matrix.explain", "call %d of %s raised %s: %s" % (k, cfg["cls"], type(e).__name__, str(e)[:160])))
            break
        if counter["model"] != item["calls"][k - 1]:
            probs.append(("matrix.budget", "call %d: %d model evaluations, contract says %d" % (k, counter["model"], item["calls"][k - 1])))
        iv = ex.importance_values
        if not isinstance(iv, dict) or not isinstance(ret, dict):
            probs.append(("matrix.return_is_property", "call %d: explain_one returned %r, importance_values is %r" % (k, type(ret).__name__, type(iv).__name__)))
            break
        if ret is not iv and dict(ret) != dict(iv):
            probs.append(("matrix.return_is_property", "call %d: returned dict differs from importance_values" % k))
        explained = (k >= 2) if cfg["cls"] in ("IncrementalSage", "IncrementalPFI") else (cfg["cls"] == "BatchSage")
        if explained or cfg["cls"] in ("BatchSage", "IntervalSage"):
            keys = list(iv.keys())
            if len(keys) != len(names) or any(nm not in iv for nm in names):
                probs.append(("matrix.keys", "call %d: importance keys %r for names %r" % (k, keys, names)))
        if x != x_copy or list(ex.feature_names) != names_copy:
            probs.append(("matrix.args_unmodified", "call %d modified x or the feature-name list" % k))
        seen = getattr(ex, "seen_samples", None)
        if seen is not None and seen != k:
            probs.append(("matrix.seen", "after %d calls seen_samples = %r" % (k, seen)))
        if probs:
            break
    return probs
