"""C04: exact expectation of the contribution the real explainers add for one observation, obtained by
enumerating every outcome of their random draws (enumerate mode of the tape), for the instance of
spec/Expectation.tla."""
from fractions import Fraction as F

from harness import dist, gen_explainer as G, gen_batch as GB


def instance(d, m):
    rows = [[(r * f + r) % 3 for f in range(1, d + 1)] for r in range(1, m + 1)]
    ys = [r % 3 for r in range(1, m + 1)]
    x0 = [0 if f == d else f for f in range(1, d + 1)]
    return rows, ys, x0, 1


def incremental(mode, strategy, d, n, m, grid=8):
    rows, ys, x0, y0 = instance(d, m)
    names = list(range(1, d + 1))

    def fresh():
        sc = G.Scenario(cls=mode, d=d, names="idx", n_inner=n, dynamic=True, alpha=F(1, 2), storage=("batch",),
                        imputer=strategy, tables="spec:scalar")
        env = G.build(sc)
        ex = env["ex"]
        ex.explain_one({f: F(v) for f, v in zip(names, rows[0])}, ys[0])     # seeds the storage, explains nothing
        for r, y in zip(rows[1:], ys[1:]):
            ex.update_storage({f: F(v) for f, v in zip(names, r)}, y)
        return env

    def call(env):
        ex = env["ex"]
        ex.explain_one({f: F(v) for f, v in zip(names, x0)}, y0)
        iv = ex.importance_values
        # first explained call of an exponential-smoothing tracker started at zero: value = alpha * contribution
        return tuple(2 * F(iv[f]) for f in names)

    res = dist.enumerate_call(fresh, call, grid=grid)
    tot = sum(w for w, _, _ in res)
    exp = [sum(w * v[i] for w, v, _ in res) for i in range(d)]
    kinds = sorted({(s[0], s[1]) for _, _, script in res for s in script})
    return exp, tot, len(res), kinds


def batch(entry, d, n, m, grid=8):
    rows, ys, _, _ = instance(d, m)
    if entry == "interval_product":
        sc = GB.BatchScenario(cls="interval", mode="interval", d=d, n_inner=n, tables="spec", interval=m, storage_len=m,
                              imputer_kind="product", rows=[([F(v) for v in r], y) for r, y in zip(rows, ys)], calls=[(False, True)] * m)
    elif entry == "interval":
        # IntervalSage whose m-th call recomputes over a window holding exactly the m rows
        sc = GB.BatchScenario(cls="interval", mode="interval", d=d, n_inner=n, tables="spec", interval=m, storage_len=m,
                              rows=[([F(v) for v in r], y) for r, y in zip(rows, ys)], calls=[(False, True)] * m)
    elif entry == "many_product":
        # default mode of an explainer built with a product MarginalImputer: the product game
        sc = GB.BatchScenario(cls="batch", mode="many", d=d, n_inner=n, tables="spec", imputer_kind="product",
                              rows=[([F(v) for v in r], y) for r, y in zip(rows, ys)])
    elif entry in ("original_product", "original_foreign"):
        sc = GB.BatchScenario(cls="batch", mode="original", d=d, n_inner=n, tables="spec",
                              rows=[([F(v) for v in r], y) for r, y in zip(rows, ys)],
                              imputer_kind="product" if entry == "original_product" else None, foreign=entry == "original_foreign")
    else:
        sc = GB.BatchScenario(cls="batch", mode=entry, d=d, n_inner=n, tables="spec",
                              rows=[([F(v) for v in r], y) for r, y in zip(rows, ys)])
    res = []
    stack = [([], F(1))]
    runs = 0
    kinds = set()
    from harness.proxies import TapeExhausted
    while stack:
        script, w = stack.pop()
        runs += 1
        if runs > 400000:
            raise RuntimeError("enumeration too large")
        try:
            tr = GB.run(sc, tape_mode="script", script=[tuple(s) for s in script])
        except TapeExhausted as e:
            for v, pw in dist.outcomes_of(e.kind, e.range, grid, getattr(e, "weights", None)):
                stack.append((script + [(e.kind, e.range, v)], w * pw))
            continue
        c = tr["calls"][-1]
        if c["outcome"] != "ret":
            raise RuntimeError("explain raised: %s" % c["exc"])
        vals = c["raw_values"]
        res.append((w, tuple(F(float(vals[f])) for f in range(1, d + 1))))
        kinds |= {(s[0], s[1]) for s in script}
    tot = sum(w for w, _ in res)
    exp = [sum(w * v[i] for w, v in res) for i in range(d)]
    return exp, tot, len(res), sorted(kinds)
