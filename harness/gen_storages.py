"""Drivers and projections for the storage classes (C07, C08, C09)."""
import random

import numpy as np

from harness.proxies import Tape, TapeMismatch


SIZE_TYPES = [int, int, int, np.int64, np.int32, np.int16, np.int8, np.uint8]


def make(kind, cap, targets, p=None, conv=int, positional=False):
    """conv: the numeric type the size is given in (Python int, NumPy integer scalars);
    positional: arguments passed by position, in the documented order"""
    from ixai.storage import (BatchStorage, IntervalStorage, SequenceStorage, UniformReservoirStorage,
                              GeometricReservoirStorage)
    cap = conv(cap)
    if positional:
        if kind == "batch":
            return BatchStorage(targets)
        if kind == "interval":
            return IntervalStorage(cap, targets)
        if kind == "sequence":
            return SequenceStorage(targets)
        if kind == "uniform":
            return UniformReservoirStorage(cap, targets)
        if kind == "geometric":
            return GeometricReservoirStorage(cap, p, targets)
    if kind == "batch":
        return BatchStorage(store_targets=targets)
    if kind == "interval":
        return IntervalStorage(size=cap, store_targets=targets)
    if kind == "sequence":
        return SequenceStorage(store_targets=targets)
    if kind == "uniform":
        return UniformReservoirStorage(size=cap, store_targets=targets)
    if kind == "geometric":
        return GeometricReservoirStorage(size=cap, store_targets=targets, constant_probability=p)
    raise ValueError(kind)


def item(t):
    return {"id": t, "v": 0.5 * t}, "y%d" % t


def item_dup(t):
    """streams with repeated feature vectors: every arrival has the same features, arrivals differ in their target (and
    in object identity) only"""
    return {"id": 0, "v": 0.25}, "y%d" % t


def project(st, arrivals=None):
    """(sx, sy) as arrival ids / 100 + arrival ids; -1 for anything that is not an observed item.
    arrivals (streams with repeated feature vectors): the dict objects fed so far, in order - a stored instance is
    identified by object identity"""
    xs, ys = st.get_data()
    sx, sy = [], []
    for x in xs:
        try:
            if arrivals is not None:
                hits = [i + 1 for i, a in enumerate(arrivals) if a is x]
                sx.append(hits[0] if len(hits) == 1 and x == item_dup(0)[0] else -1)
                continue
            t = x["id"]
            sx.append(int(t) if x == item(t)[0] else -1)
        except Exception:
            sx.append(-1)
    for y in ys:
        try:
            sy.append(-2 if y is None else 100 + int(y[1:]) if isinstance(y, str) and y.startswith("y") else -1)
        except Exception:
            sy.append(-1)
    return sx, sy


def record_run(kind, cap, targets, p, n, seed, pass_y_keyword=False, extreme=False, no_target_share=True, dup_x=False):
    """Seeded run of the real class; one event per update."""
    random.seed(seed)
    np.random.seed(seed % 2 ** 32)
    tape = Tape(mode="extreme", rng=random.Random(seed + 1)) if extreme else Tape(mode="log")
    tape.__enter__()
    conv = SIZE_TYPES[seed % len(SIZE_TYPES)] if cap <= 100 else int
    st = make(kind, cap, targets, p, conv=conv, positional=(seed // 8) % 3 == 0)
    # a second live object of the same class (other capacity), fed other items in lockstep: objects must not share state
    comp = make(kind, 1 if kind == "sequence" else cap + 2, not targets, p) if seed % 2 else None
    ev = []
    arrivals = [] if dup_x else None
    none = []          # arrivals whose target is None: the update omitted y, or passed None, on a storage that keeps targets
    for t in range(1, n + 1):
        if comp is not None:
            comp.update({"id": -t, "v": -1.0}, "decoy%d" % t)
        bx, by = project(st, arrivals)
        x, y = item_dup(t) if dup_x else item(t)
        if dup_x:
            arrivals.append(x)
        d0 = len(tape.log)
        try:
            if targets and no_target_share and (seed + 7 * t) % 11 < 3:
                none.append(t)
                if t % 2:
                    st.update(x)
                else:
                    st.update(x, None)
            elif pass_y_keyword:
                st.update(x=x, y=y)
            elif targets or t % 2:
                st.update(x, y)
            else:
                st.update(x)           # y is optional when targets are not stored
        except TapeMismatch:
            raise
        except Exception:
            pass        # update() raised: the content logged below is then not a successor of the one before (storage.kind_law)
        ax, ay = project(st, arrivals)
        ev.append({"t": t, "before": {"sx": bx, "sy": by}, "after": {"sx": ax, "sy": ay}, "len": len(st),
                   "draws": [[d["kind"], d["range"] or 0, d["v"] if isinstance(d["v"], int) else 0] for d in tape.log[d0:]]})
    tape.__exit__(None, None, None)
    return {"kind": kind, "cap": cap, "targets": targets, "p": -1 if p is None else p, "ev": ev, "seed": seed, "none": none,
            "size_type": conv.__name__}


def replay_choices(kind, cap, targets, choices):
    """Direction A: drive the real class along a specification behaviour.  Only behaviours whose random
    outcomes can be scripted without assumptions on how the code maps a uniform draw to 'accept' are
    replayed: deterministic storages, and the geometric reservoir with p = 1 (always accept, slot scripted)."""
    script = []
    p = None
    if kind == "geometric":
        p = 1.0
    st_len = 0
    for c in choices:
        if kind == "geometric" and st_len >= cap:
            if c == 0:
                return None          # not replayable with p = 1
            script += [("u01", None, 0.5), ("uniform", cap, c - 1)]
        st_len = min(st_len + 1, cap) if kind != "batch" else st_len + 1
    if kind == "uniform":
        return None
    with Tape(mode="script", script=script) as tape:
        st = make(kind, cap, targets, p)
        out = []
        for t in range(1, len(choices) + 1):
            x, y = item(t)
            st.update(x, y)
            out.append(project(st) + (len(st),))
    return out
