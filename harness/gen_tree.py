"""Drivers and projections for TreeStorage / TreeImputer (C19)."""
import copy
import math
import random
import warnings

import numpy as np

warnings.filterwarnings("ignore")


def own_leaf_count(node):
    """independent traversal of a river tree: number of leaves"""
    children = getattr(node, "children", None)
    if not children:
        return 1
    return sum(own_leaf_count(c) for c in children)


def own_route_id(root, x_i, sep="|STOP|"):
    """independent routing of an instance through a river tree (the nodes' own next / branch_no), rendered in the
    storage's leaf-id format; the caller only uses it when it is one of the ids the storage itself lists for the tree"""
    node, path = root, ""
    for _ in range(10000):
        if not getattr(node, "children", None):
            return path + str(node) + sep
        path += "|".join((str(node), str(node.repr_split), str(node.branch_no(x_i)))) + sep
        node = node.next(x_i)
    return None


class Stream:
    """mixed categorical / numerical stream with recurring concept drift (DESIGN.md Appendix B)"""

    def __init__(self, seed, period=300):
        self.rng = random.Random(seed * 7 + 1)
        self.period = period
        self.t = 0
        self.concept = 1

    def next(self):
        r = self.rng
        if self.t % self.period == 0 and self.t > 0:
            self.concept = (self.concept + 1) % 3
        a = r.choice([0, 1, 2, 3])
        b = r.gauss(0, 1)
        c = r.choice([0, 1])
        if self.concept == 0:
            c1, n1 = int(a >= 2), 10 * a + r.random()
        elif self.concept == 1:
            c1, n1 = int(b > 0), -50 * c + b
        else:
            c1, n1 = c, 100 * (a % 2) + 5 * b
        self.t += 1
        return {"c1": c1, "n1": n1, "a": a, "b": b, "c": c}


def appendix_b_stream(seed):
    """the exact recipe under which the stale-reservoir episode was first observed (seed 9)"""
    random.seed(seed)
    np.random.seed(seed)
    gp = random.choice([3, 5, 10])
    md = random.choice([2, 3, 4])
    concept = [1]

    def gen(t):
        if t % 300 == 0 and t > 0:
            concept[0] = (concept[0] + 1) % 3
        a = random.choice([0, 1, 2, 3])
        b = random.gauss(0, 1)
        c = random.choice([0, 1])
        if concept[0] == 0:
            c1, n1 = int(a >= 2), 10 * a + random.random()
        elif concept[0] == 1:
            c1, n1 = int(b > 0), -50 * c + b
        else:
            c1, n1 = c, 100 * (a % 2) + 5 * b
        return {"c1": c1, "n1": n1, "a": a, "b": b, "c": c}
    return gp, md, gen


def run_storage(cat, num, max_depth, cap, grace, seed, nupdates, gen, log_from=0, impute_every=0, use_storage=True,
                tree_seed="same"):
    """Drive a TreeStorage; returns a trace dict for Trace_TreeStore.tla."""
    from ixai.storage import TreeStorage
    from ixai.storage.tree_storage import get_all_tree_paths
    from ixai.imputer import TreeImputer
    ts = seed if tree_seed == "same" else tree_seed
    st = TreeStorage(cat_feature_names=list(cat), num_feature_names=list(num), max_depth=max_depth,
                     leaf_reservoir_length=cap, grace_period=grace, seed=ts)
    feats = list(cat) + list(num)
    arrivals = []                 # arrival index - 1 -> the dict passed in
    ids = {}
    leaf_tok = {}

    def tok(s):
        if s not in leaf_tok:
            leaf_tok[s] = len(leaf_tok) + 1
        return leaf_tok[s]

    def arrival_of(point):
        a = ids.get(id(point))
        if a is not None and arrivals[a - 1] is point:
            return a, True
        for i in range(len(arrivals) - 1, -1, -1):
            if arrivals[i] == point:
                return i + 1, True
        return -1, False

    def reservoirs(f):
        out = []
        complete = True
        for leaf, r in st.data_reservoirs[f].items():
            xs, _ = r.get_data()
            aa = []
            for p in xs:
                a, ok = arrival_of(p)
                aa.append(a)
                complete = complete and ok
            out.append([tok(leaf), aa])
        return out, complete

    model_inputs = []

    def model(x):
        model_inputs.append(dict(x))
        return {"output": float(x["n1"]) if "n1" in x else 0.0}

    imp_s = TreeImputer(model, st, use_storage=True)
    imp_m = TreeImputer(model, st, use_storage=False)
    # the same two modes combined with the other constructor option (numeric features predicted directly when the
    # *model* is sampled): with use_storage the values still come from the routed leaf's reservoir
    imp_sd = TreeImputer(model, st, direct_predict_numeric=True, use_storage=True)
    imp_md = TreeImputer(model, st, True, False)
    all_names = None
    ev = []
    val_tok = {}

    def vtok(f, v):
        if v is None or isinstance(v, (list, dict, tuple)):
            return 0               # not a feature value at all: no token (the clause comparing it with the allowed tokens fails)
        key = (f, float(v) if not isinstance(v, str) else v)
        if key not in val_tok:
            val_tok[key] = len(val_tok) + 1
        return val_tok[key]

    seen_classes = {f: set() for f in cat}
    probe = None
    for t in range(1, nupdates + 1):
        x = gen(t - 1)
        if all_names is None:
            all_names = list(x.keys())
        pre = {f: reservoirs(f)[0] for f in feats} if t > log_from else None
        arrivals.append(x)
        ids[id(x)] = t
        x_copy = dict(x)
        st.update(x)
        for f in cat:
            seen_classes[f].add(x[f])
        if x != x_copy:
            ev.append({"k": "update", "t": t, "f": "*", "leaves": [], "routed": 0, "routed_own": 0, "pre": [], "post": [], "len": len(st),
                       "nleaves_own": -1, "complete": False})
            continue
        if t > log_from:
            for f in feats:
                root = st._storage_x[f]._root
                leaves = [tok(s) for s in get_all_tree_paths(root)]
                x_i = {k: v for k, v in x.items() if k != f}
                routed = tok(st.get_path_through_tree(root, x_i))
                try:
                    own = own_route_id(root, x_i)
                except Exception:
                    own = None
                # (0: the id format is not the one assumed here - nothing to compare)
                routed_own = tok(own) if own is not None and own in get_all_tree_paths(root) else 0
                post, complete = reservoirs(f)
                ev.append({"k": "update", "t": t, "f": f, "leaves": leaves, "routed": routed, "routed_own": routed_own, "pre": pre[f], "post": post,
                           "len": len(st), "nleaves_own": own_leaf_count(root) if len(set(leaves)) == len(leaves) else -1,
                           "complete": complete})
        if impute_every and t % impute_every == 0 and t > log_from:
            # the instances imputed: the current observation, and a probe object that is the SAME dict object at every
            # imputation (unchanged for a while, then overwritten in place with the current observation): the result may
            # depend on the instance's content and the current trees only, never on which object was seen before
            if probe is None:
                probe = dict(x)
            elif (t // impute_every) % 4 == 0:
                probe.update(x)
            if (t // impute_every) % 2:
                targets = [(imp_s, "storage", x), (imp_m, "model", x), (imp_sd, "storage", probe), (imp_md, "model", probe)]
            else:
                targets = [(imp_sd, "storage", x), (imp_md, "model", x), (imp_s, "storage", probe), (imp_m, "model", probe)]
            x_cur = x
            for imp, mode, x in targets:
                sub = [f for f in feats if random.random() < 0.6] if t % (2 * impute_every) else []
                n = 1 + (t // impute_every) % 3
                model_inputs.clear()
                x_before = dict(x)
                sub_before = list(sub)
                res_before = {f: reservoirs(f)[0] for f in feats}
                try:
                    out = imp.impute(sub, x, n)
                    count = len(out)
                except Exception as e:
                    ev.append({"k": "impute", "mode": mode, "t": t, "n": n, "count": -1, "subset": [], "x": [], "inputs": [],
                               "allowed": [], "unmodified": False, "error": "%s: %s" % (type(e).__name__, str(e)[:100])})
                    continue
                allowed = []
                for f in sub:
                    if mode == "storage":
                        root = st._storage_x[f]._root
                        leaf = st.get_path_through_tree(root, x)
                        r = st.data_reservoirs[f].get(leaf)
                        if r is None:
                            allowed.append({"any": True, "tokens": []})      # fallback to the tree's own prediction
                        else:
                            allowed.append({"any": False, "tokens": [vtok(f, p[f]) for p in r.get_data()[0]]})
                    elif f in cat:
                        allowed.append({"any": False, "tokens": [vtok(f, c) for c in seen_classes[f]]})
                    else:
                        allowed.append({"any": True, "tokens": []})
                unmod = (x == x_before and sub == sub_before and {f: reservoirs(f)[0] for f in feats} == res_before)
                finite = all(isinstance(inp.get(f), str) or (isinstance(inp.get(f), (int, float, np.number)) and math.isfinite(float(inp.get(f))))
                             for inp in model_inputs for f in all_names)
                ev.append({"k": "impute", "mode": mode, "t": t, "n": n, "count": count,
                           "subset": [all_names.index(f) + 1 for f in sub],
                           "x": [vtok(f, x[f]) for f in all_names],
                           "inputs": [[vtok(f, inp[f]) if f in inp else 0 for f in all_names] for inp in model_inputs],
                           "allowed": allowed, "unmodified": bool(unmod and finite)})
            x = x_cur
    return {"cap": cap, "ev": ev, "feats": feats, "max_depth": max_depth, "grace": grace, "seed": seed}, st
