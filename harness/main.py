import argparse
import importlib
import os
import sys

from harness import core


def main():
    ap = argparse.ArgumentParser()
    ap.add_argument("pid")
    ap.add_argument("--tier", default=os.environ.get("VERIF_TIER", "quick"), choices=["quick", "thorough"])
    ap.add_argument("--replay", default=None)
    a = ap.parse_args()
    seed = core.seed_from_env()
    pid = a.pid.upper()
    try:
        mod = importlib.import_module("checks." + pid.lower())
    except ImportError as e:
        print("no check for %s: %s" % (pid, e))
        return 2
    if a.replay:
        if not hasattr(mod, "replay"):
            print("check %s has no replay support" % pid)
            return 2
        return core.main_wrapper(lambda t, s: mod.replay(a.replay, t, s), pid, a.tier, seed)
    # replay files of earlier runs of this property are removed: every run writes its own (disk is limited)
    import shutil
    shutil.rmtree(os.path.join(core.REPLAYS, pid), ignore_errors=True)
    return core.main_wrapper(mod.run, pid, a.tier, seed)


if __name__ == "__main__":
    sys.exit(main())
