"""Engines for BatchSage / IntervalSage: spec behaviours replayed into the code (A) and recorded calls
validated by TLC with spec/Trace_BatchSage.tla (B)."""
import copy
import math
import random
from fractions import Fraction as F

from harness.fieldp import Unrepresentable
from harness import tlc, tracecheck, gen_batch as GB
from harness.fieldp import qpair
from harness.proxies import TapeMismatch
from harness.replay_explainer import _fun


def replay_batch_behaviour(rec, d, n_inner):
    """one state of MC_BatchSage (data, mode, orders, row draws, values) replayed into the real BatchSage"""
    data = rec["data"]
    m = len(data)
    script = []
    ps = [list(p) for p in rec["ps"]]
    for i in range(m):
        script.append(("perm", d, [f - 1 for f in ps[i]]))
        dri = rec["drs"][i]
        for j in range(d):
            for k in range(n_inner):
                script.append(("uniform", m, dri[j][k] - 1))
    sc = GB.BatchScenario(cls="batch", mode="many" if rec["mode"] == "imputer" else "original", d=d, n_inner=n_inner,
                          tables="spec", rows=[([F(v) for v in it[0]], it[1]) for it in data])
    try:
        tr = GB.run(sc, tape_mode="script", script=script)
    except TapeMismatch as e:
        return [("replay.batch.draw_range" if e.reason == "range" else "replay.batch.not_followed", str(e))], None
    c = tr["calls"][0]
    probs = []
    if c["outcome"] != "ret":
        probs.append(("replay.batch.outcome", "explain raised %s" % c["exc"]))
        return probs, tr
    want = {i + 1: qpair(v) for i, v in enumerate(rec["values"])}
    got = c["raw_values"]
    for f, w in want.items():
        g = got.get(f)
        if g is None or not math.isfinite(float(g)) or abs(float(g) - float(w)) > 1e-9 * (1 + abs(float(w))):
            probs.append(("replay.batch.values", "feature %d: implementation %r, specification %s" % (f, g, w)))
    return probs, tr


def strip(traces):
    out = copy.deepcopy(traces)
    for t in out:
        for c in t["calls"]:
            c.pop("raw_values", None)
            for o in c.get("obs", []):
                o.pop("Lraw", None)
                o.pop("lmodel_raw", None)
    return out


def validate(ctx, scenarios, wanted, label, workers=8):
    traces, kept = [], []
    for sc in scenarios:
        try:
            traces.append(GB.run(sc))
            kept.append(sc)
        except Unrepresentable:
            continue          # a logged number cannot be encoded in GF(P): the scenario is skipped, never failed
        except GB.ForeignRows as e:
            if wanted("batch.background_is_own_data"):
                ctx.violation("trace.batch.background_is_own_data", "%s/%s" % (sc.cls, sc.mode), "scenario [%s]: %s" % (sc.key(), e),
                              {"batch_scenario": sc.to_json()})
    scenarios[:] = kept          # callers zip their list with the traces
    if not traces:
        return [], []
    fails, res = tracecheck.validate("Trace_BatchSage", strip(traces), lambda t: len(t["calls"]), tag=ctx.pid.lower() + "bt",
                                     workers=workers)
    ncalls = sum(len(t["calls"]) for t in traces)
    ctx.add_tlc("trace validation Trace_BatchSage: " + label, res, kind="trace_validation", traces=len(traces), calls=ncalls,
                recomputed=sum(1 for t in traces for c in t["calls"] if c["recomputed"]))
    ctx.traces += len(traces)
    ctx.evaluations += ncalls
    for t, sc in zip(traces, scenarios):
        if any(c["recomputed"] for c in t["calls"]):
            ctx.nontrivial((label, sc.key()))
    for (clause, tid, l) in fails:
        if not wanted(clause):
            continue
        sc = scenarios[tid]
        ctx.violation("trace." + clause, "%s/%s" % (sc.cls, sc.mode),
                      "call %d of scenario [%s]: clause %s does not hold" % (l, sc.key(), clause),
                      {"batch_scenario": sc.to_json(), "call": l})
    return traces, fails


def random_batch(rng, quick):
    d = rng.choice([1, 2, 2, 3])
    m = rng.choice([1, 2, 2, 3, 4, 4, 5])
    rows = [([F(rng.randrange(-3, 4)) for _ in range(d)], rng.randrange(0, 3)) for _ in range(m)]
    return GB.BatchScenario(cls="batch", mode=rng.choice(["many", "original", "one", "one_original"]), d=d,
                            n_inner=rng.choice([1, 2, 4, 3]), n_override=rng.choice([None, None, 2]),
                            model_seed=rng.randrange(10 ** 6), rows=rows, seed=rng.randrange(2 ** 31),
                            names=rng.choice(["idx", "str", "mixed"]), nlab=rng.choice([1, 1, 2, 3]), loss_object=rng.random() < 0.25,
                            imputer_kind=rng.choice([None, None, "product"]), foreign=rng.random() < 0.3, hidden=rng.random() < 0.4)


def random_interval(rng, quick, calls=None):
    d = rng.choice([1, 2, 3])
    ncalls = len(calls) if calls else rng.choice([4, 8, 12])
    rows = [([F(rng.randrange(-3, 4)) for _ in range(d)], rng.randrange(0, 3)) for _ in range(ncalls)]
    cl = calls or [(rng.random() < 0.25, rng.random() < 0.8) for _ in range(ncalls)]
    return GB.BatchScenario(cls="interval", mode="interval", d=d, n_inner=rng.choice([1, 2]),
                            interval=rng.choice([1, 2, 3, 4]), storage_len=rng.choice([1, 2, 3, 4]),
                            model_seed=rng.randrange(10 ** 6), rows=rows, calls=cl, seed=rng.randrange(2 ** 31),
                            names=rng.choice(["idx", "str"]), nlab=rng.choice([1, 1, 2, 3]), loss_object=rng.random() < 0.25,
                            imputer_kind=rng.choice([None, None, "product"]), foreign=rng.random() < 0.3, hidden=rng.random() < 0.4)


def float_checks(ctx, traces, scenarios, wanted):
    """every recomputed explanation, dyadic or not: per-feature averages and efficiency in float arithmetic"""
    n = 0
    for t, sc in zip(traces, scenarios):
        names = None
        for ci, c in enumerate(t["calls"]):
            if not c["recomputed"]:
                continue
            m = len(c["obs"])
            d = t["d"]
            vals = c["raw_values"]
            keys = list(vals.keys())
            contrib = {f: 0.0 for f in range(1, d + 1)}
            scale = 1.0
            for o in c["obs"]:
                for j, f in enumerate(o["order"]):
                    contrib[f] += o["Lraw"][j] - o["Lraw"][j + 1]
                scale = max(scale, max(abs(v) for v in o["Lraw"]))
            tol = 1e-9 * scale * (m + 1)
            byidx = {}
            from harness.gen_explainer import NAME_SCHEMES
            nm = NAME_SCHEMES[sc.names](d)
            for k, v in vals.items():
                if k in nm:
                    byidx[nm.index(k) + 1] = float(v)
            n += 1
            for f in range(1, d + 1):
                if f not in byidx or not math.isfinite(byidx[f]) or abs(byidx[f] - contrib[f] / m) > tol:
                    if wanted("float.batch.per_feature"):
                        ctx.violation("float.batch.per_feature", "%s/%s" % (sc.cls, sc.mode),
                                      "call %d of [%s]: value of feature %d is %r, average chain contribution %r" % (
                                          ci + 1, sc.key(), f, byidx.get(f), contrib[f] / m),
                                      {"batch_scenario": sc.to_json(), "call": ci + 1})
                    break
            eff = sum(o["Lraw"][0] - o["lmodel_raw"] for o in c["obs"]) / m
            tot = sum(byidx.values())
            if not math.isfinite(tot) or abs(tot - eff) > tol * (d + 1):
                if wanted("float.batch.efficiency"):
                    ctx.violation("float.batch.efficiency", "%s/%s" % (sc.cls, sc.mode),
                                  "call %d of [%s]: values sum to %r, explained loss of the data %r" % (ci + 1, sc.key(), tot, eff),
                                  {"batch_scenario": sc.to_json(), "call": ci + 1})
    ctx.add_stage("float checks of every recomputed explanation (per-feature average, efficiency)", "float_twin", explanations=n)
    ctx.evaluations += n
    ctx.count_clause("float.batch.*", n)


def _harness_ordinal(spec_k, m, d, n, imputer_mode):
    """translate the ordinal of a callback of spec/BatchSage.tla (batch model call = 1 callback, no separate imputer
    entry) into the harness's ordinal (one callback per row of the batch call, imputer entry counted)"""
    spec_seq, har_seq = [], []
    spec_seq.append("batch")
    har_seq += [("batch", j == 0) for j in range(m)]
    for i in range(m):
        spec_seq.append("lossmarg")
        har_seq.append(("lossmarg", True))
        for j in range(d):
            if imputer_mode:
                har_seq.append(("impute", False))
            for k in range(n):
                spec_seq.append("imodel")
                har_seq.append(("imodel", True))
            spec_seq.append("lossfeat")
            har_seq.append(("lossfeat", True))
    # the spec_k-th spec callback corresponds to the spec_k-th harness entry flagged True
    cnt = 0
    for idx, (kind, flag) in enumerate(har_seq):
        if flag:
            cnt += 1
            if cnt == spec_k:
                return idx + 1
    return None


def replay_batch_fault_behaviour(rec, d, n_inner):
    """one behaviour of spec/BatchSage.tla (single explanation, possibly failing at a callback) replayed into BatchSage"""
    data = rec["data"]
    m = len(data)
    script = []
    for i in range(len(rec["orders"])):
        script.append(("perm", d, [f - 1 for f in rec["orders"][i]]))
        for r in rec["draws"][i]:
            script.append(("uniform", m, r - 1))
    fault = None
    if rec["fault"]:
        fault = (0, _harness_ordinal(rec["fault"], m, d, n_inner, rec["mode"] == "imputer"))
    sc = GB.BatchScenario(cls="batch", mode="many" if rec["mode"] == "imputer" else "original", d=d, n_inner=n_inner,
                          tables="spec", rows=[([F(v) for v in it[0]], it[1]) for it in data], fault=fault)
    sc.repeat_after_fault = False        # the behaviour (and its scripted draws) ends with the failed explanation
    try:
        tr = GB.run(sc, tape_mode="script", script=script)
    except TapeMismatch as e:
        return [("replay.batch.draw_range" if e.reason == "range" else "replay.batch.not_followed", str(e))], None
    c = tr["calls"][0]
    probs = []
    want_out = "ret" if rec["outcome"] == "ok" else "exc"
    if c["outcome"] != want_out:
        return [("replay.batch.outcome", "specification %s, implementation %s %s" % (want_out, c["outcome"], c["exc"]))], tr
    want = {i + 1: qpair(v) for i, v in enumerate(rec["values"])}
    got = c["raw_values"]
    clause = "replay.batch.fault_atomic" if want_out == "exc" else "replay.batch.values"
    for f, w in want.items():
        g = got.get(f)
        if g is None or not math.isfinite(float(g)) or abs(float(g) - float(w)) > 1e-9 * (1 + abs(float(w))):
            probs.append((clause, "feature %d: implementation %r, specification %s (fault at spec callback %s)" % (f, g, w, rec["fault"])))
    return probs, tr
