"""C18: the literal reproducibility experiment.  Run as a fresh interpreter process:
     python -m harness.repro_worker <variant> <seed> <out.json>
variant "plain": seed both global generators, run the scenario matrix.
variant "noisy": first create and use decoy library objects (consuming global randomness), allocate junk (shifting
object identities), wait a little and replace the wall clock by one that jumps an hour per reading - THEN seed both generators identically and run the same matrix."""
import json
import random
import sys
import time
import warnings

import numpy as np

warnings.filterwarnings("ignore")


def fhex(v):
    try:
        return float(v).hex()
    except Exception:
        return repr(v)


def matrix():
    out = []
    for cls in ("sage", "pfi"):
        for storage in (None, "uniform", "geometric", "interval", "batch", "tree", "tree_default_seed"):
            for imputer in (None, "product", "tree_storage", "tree_model"):
                if imputer in ("tree_storage", "tree_model") and not str(storage).startswith("tree"):
                    continue
                if str(storage).startswith("tree") and imputer not in ("tree_storage", "tree_model"):
                    continue
                for dynamic in (True, False):
                    out.append((cls, storage, imputer, dynamic))
    out += [("batch", "batch", None, True), ("batch_original", "batch", None, True), ("interval", "interval", None, True)]
    # models / losses that go through the library's wrappers (string labels of a river classifier, probabilities, a river metric)
    out += [("sage_river_labels", None, None, True), ("sage_river_labels", "interval", "product", False),
            ("pfi_river_proba_metric", None, None, True), ("sage_sklearn", "geometric", None, True)]
    return out


def run_one(cfg, seed, n, dup=None):
    """dup: None | "copy" (every observation delivered twice, as two equal dicts) | "same" (twice, the same dict object):
    results must not depend on object identities"""
    from ixai.explainer import IncrementalSage, IncrementalPFI, BatchSage, IntervalSage
    from ixai.storage import (UniformReservoirStorage, GeometricReservoirStorage, IntervalStorage, BatchStorage, TreeStorage)
    from ixai.imputer import MarginalImputer, TreeImputer
    cls, storage, imputer, dynamic = cfg
    random.seed(seed)
    np.random.seed(seed)
    names = ["c1", "n1", "n2"]
    wrapped = None
    if cls in ("sage_river_labels", "pfi_river_proba_metric", "sage_sklearn"):
        wrapped = cls
        cls = "pfi" if cls.startswith("pfi") else "sage"

    def model(x):
        if not isinstance(x, dict):
            return [model(xi) for xi in x]
        return {"output": 2.0 * float(x["c1"]) + 0.5 * float(x["n1"]) - float(x["n2"]) * float(x["c1"])}

    def loss(y, p):
        return (float(y) - p["output"]) ** 2

    st = None
    if storage == "uniform":
        st = UniformReservoirStorage(size=5, store_targets=False)
    elif storage == "geometric":
        st = GeometricReservoirStorage(size=5, store_targets=False)
    elif storage == "interval":
        st = IntervalStorage(size=4, store_targets=cls == "interval")
    elif storage == "batch":
        st = BatchStorage(store_targets=True)
    elif storage == "tree":
        st = TreeStorage(cat_feature_names=["c1"], num_feature_names=["n1", "n2"], max_depth=3, leaf_reservoir_length=3,
                         grace_period=5, seed=42)
    elif storage == "tree_default_seed":
        st = TreeStorage(cat_feature_names=["c1"], num_feature_names=["n1", "n2"], max_depth=3, leaf_reservoir_length=3,
                         grace_period=5)
    imp = None
    if imputer == "product":
        base = st if st is not None else GeometricReservoirStorage(size=5, store_targets=False)
        st = base
        imp = MarginalImputer(model, "product", base)
    elif imputer == "tree_storage":
        imp = TreeImputer(model, st, use_storage=True)
    elif imputer == "tree_model":
        imp = TreeImputer(model, st, use_storage=False)
    if wrapped is not None:
        tr = random.Random(4)
        if wrapped == "sage_sklearn":
            from sklearn.tree import DecisionTreeRegressor
            X = [[tr.choice([0, 1, 2]), tr.gauss(0, 1), tr.gauss(0, 2)] for _ in range(60)]
            est = DecisionTreeRegressor(max_depth=3, random_state=0).fit(X, [2 * a + 0.5 * b - c for a, b, c in X])
            model = est.predict
        else:
            from river.tree import HoeffdingTreeClassifier
            clf = HoeffdingTreeClassifier(grace_period=5)
            for _ in range(80):
                c1 = tr.choice([0, 1, 2])
                clf.learn_one({"c1": c1, "n1": 10.0 * c1 + tr.gauss(0, 1), "n2": tr.gauss(0, 2)}, ["low", "mid", "high"][c1])
            model = clf.predict_one if wrapped == "sage_river_labels" else clf.predict_proba_one
        if wrapped == "pfi_river_proba_metric":
            from river.metrics import CrossEntropy
            loss = CrossEntropy()
        elif wrapped == "sage_river_labels":
            def loss(y, p):
                return sum((float(v) - (1.0 if k == ["low", "mid", "high"][y] else 0.0)) ** 2 for k, v in p.items())
        if wrapped == "pfi_river_proba_metric":
            ys = ["low", "mid", "high"]
        if imp is not None:
            imp = MarginalImputer(model, "product", st)
    kw = {}
    if st is not None:
        kw["storage"] = st
    if imp is not None:
        kw["imputer"] = imp
    if cls == "sage":
        ex = IncrementalSage(model, loss, names, smoothing_alpha=0.1, dynamic_setting=dynamic, n_inner_samples=2, **kw)
    elif cls == "pfi":
        ex = IncrementalPFI(model, loss, names, smoothing_alpha=0.1, dynamic_setting=dynamic, n_inner_samples=2, **kw)
    elif cls in ("batch", "batch_original"):
        ex = BatchSage(model, names, loss, n_inner_samples=2)
    else:
        ex = IntervalSage(model, names, loss, n_inner_samples=1, interval_length=3, storage_length=4)
    data = random.Random(seed * 31 + 5)      # the stream itself comes from a private generator
    out = []
    x_prev = None
    for t in range(n * (2 if dup else 1)):
        if dup and t % 2 == 1:
            x = x_prev if dup == "same" else dict(x_prev)
        else:
            c1 = data.choice([0, 1, 2])
            x = {"c1": c1, "n1": 10.0 * c1 + data.gauss(0, 1), "n2": data.gauss(0, 2)}
            y = data.choice([0, 1, 2])
        x_prev = x
        if wrapped == "pfi_river_proba_metric":
            y = ["low", "mid", "high"][y]
        if cls == "batch":
            vals = ex.explain_one(x, y, verbose=False) if t < 6 else ex.importance_values
        elif cls == "batch_original":
            vals = ex.explain_one(x, y, original_sage=True, verbose=False) if t < 6 else ex.importance_values
        elif cls == "interval":
            vals = ex.explain_one(x, y, verbose=False)
        else:
            vals = ex.explain_one(x, y)
        rec = {"vals": {str(k): fhex(v) for k, v in vals.items()}}
        from harness.gen_explainer import find_part
        from ixai.storage.base import BaseStorage
        s = find_part(ex, BaseStorage, "_storage")
        if hasattr(s, "data_reservoirs"):
            rec["store"] = {f: sorted([[fhex(p["n1"]) for p in r.get_data()[0]] for r in rs.values()]) for f, rs in s.data_reservoirs.items()}
        else:
            rec["store"] = [fhex(p["n1"]) for p in s.get_data()[0]]
        out.append(rec)
    return out


def noise():
    """decoys created and used BEFORE the generators are seeded"""
    from ixai.storage import UniformReservoirStorage, GeometricReservoirStorage, TreeStorage
    from ixai.utils.tracker import WelfordTracker, MultiValueTracker
    junk = [object() for _ in range(random.randrange(1000, 5000))]
    u = UniformReservoirStorage(size=3)
    g = GeometricReservoirStorage(size=2)
    t = TreeStorage(cat_feature_names=["c1"], num_feature_names=["n1"], grace_period=3, seed=1)
    for i in range(50):
        u.update({"a": i})
        g.update({"a": i})
        t.update({"c1": i % 2, "n1": float(i)})
    MultiValueTracker(WelfordTracker()).update({"z": 1.0})
    run_one(("sage", None, None, True), 99, 8)
    # wrappers used before: other labels, other feature orders, a metric loss
    from ixai.utils.wrappers import RiverWrapper, SklearnWrapper
    from ixai.utils.validators import validate_loss_function
    from river.metrics import CrossEntropy, MAE
    lab = iter(["decoy_a", "decoy_b", "decoy_a"])
    rw = RiverWrapper(lambda x: next(lab))
    for _ in range(3):
        rw({"a": 1})
    SklearnWrapper(lambda a: a.sum(axis=1), feature_names=["n2", "c1"])({"c1": 1.0, "n2": 2.0})
    validate_loss_function(CrossEntropy())(0, {0: 0.5, 1: 0.5})
    validate_loss_function(MAE())(1.0, {"output": 2.0})
    run_one(("sage_river_labels", None, None, True), 98, 6)
    # ... and one object of every configuration of the matrix itself, built with the same (default) arguments and used on
    # another stream: nothing may be shared between library objects (class-level state, mutable default arguments, caches)
    for cfg in matrix():
        try:
            run_one(cfg, 97, 7)
        except Exception:
            pass
    time.sleep(0.3)
    return junk


def jumping_clock():
    """the noisy process also lives on another wall clock: every reading of time.time / monotonic / perf_counter /
    process_time (and the _ns forms) is an hour later than the one before, while the plain process sees the real clock
    (microseconds between readings).  Installed before any library module is imported, so that `from time import ...`
    inside the library binds the replaced functions too.  Results must not depend on wall-clock time."""
    state = {"t": 1.7e9}

    def tick():
        state["t"] += 3600.0
        return state["t"]
    for name in ("time", "monotonic", "perf_counter", "process_time"):
        setattr(time, name, tick)
        setattr(time, name + "_ns", lambda: int(tick() * 1e9))


if __name__ == "__main__":
    variant, seed, path = sys.argv[1], int(sys.argv[2]), sys.argv[3]
    n = int(sys.argv[4]) if len(sys.argv) > 4 else 40
    if variant == "noisy":
        jumping_clock()
    keep = noise() if variant == "noisy" else None
    res = {}
    # the noisy process also runs the matrix in the opposite order
    for cfg in (matrix()[::-1] if variant == "noisy" else matrix()):
        try:
            res["|".join(map(str, cfg))] = run_one(cfg, seed, n, dup={"dupcopy": "copy", "dupsame": "same"}.get(variant))
        except Exception as e:
            res["|".join(map(str, cfg))] = "raised %s: %s" % (type(e).__name__, str(e)[:120])
    with open(path, "w") as f:
        json.dump(res, f)
