"""Thin, strict wrapper around TLC.

Every TLC run of the framework goes through `run()`.  The wrapper
  * runs TLC with cwd = /verif/spec (all modules live there) and a private metadir,
  * parses the counters the evidence files need (states generated / distinct / depth,
    per-action coverage when asked for),
  * collects the values printed by PrintT (FAIL clauses, exported behaviours, counters),
  * classifies the outcome: "ok", "violation" (an invariant / property / assumption of
    the specification was refuted) or "error" (anything else: parse error, overflow,
    timeout ...).  Only "violation" can ever become a VIOLATION line; "error" is a
    machinery failure (exit 2).
"""
import json
import os
import re
import shutil
import subprocess
import time
import uuid

VERIF = os.path.dirname(os.path.dirname(os.path.abspath(__file__)))
SPEC = os.path.join(VERIF, "spec")
WORK = os.path.join(VERIF, ".work")
JAR = "/opt/veriftools/tla/tla2tools.jar:/opt/veriftools/tla/CommunityModules-deps.jar"


class TLCError(Exception):
    """Machinery failure (never reported as a property violation)."""


class TLCResult:
    def __init__(self):
        self.status = "error"
        self.stdout = ""
        self.generated = 0
        self.distinct = 0
        self.depth = 0
        self.violated = None          # name of the refuted invariant / property
        self.prints = []              # raw PrintT payload lines
        self.coverage = {}            # action -> (distinct, total)
        self.wall = 0.0
        self.cmd = ""
        self.counterexample = ""

    def fails(self):
        """PrintT lines of the form <<"FAIL", clause, ...>> parsed to python lists."""
        out = []
        for p in self.prints:
            if p.startswith('<<"FAIL"'):
                out.append(parse_tla_value(p))
        return out

    def json_prints(self):
        out = []
        for p in self.prints:
            if p.startswith('"{') or p.startswith('"['):
                try:
                    out.append(json.loads(json.loads(p)))
                except Exception as e:  # pragma: no cover
                    raise TLCError("cannot parse ToJson output: %r (%s)" % (p[:200], e))
        return out

    def tagged(self, tag):
        out = []
        pre = '<<"%s"' % tag
        for p in self.prints:
            if p.startswith(pre):
                out.append(parse_tla_value(p))
        return out


_tok = re.compile(r'\s*(<<|>>|\{|\}|\[|\]|\(|\)|,|\|->|:>|@@|"(?:[^"\\]|\\.)*"|-?\d+|[A-Za-z_][A-Za-z0-9_]*)')


def parse_tla_value(s):
    """Parse a printed TLA+ value: ints, strings, tuples, sets, records, functions (:> @@),
    TRUE/FALSE.  Sets become lists, records/functions dicts."""
    toks = []
    pos = 0
    s = s.strip()
    while pos < len(s):
        m = _tok.match(s, pos)
        if not m:
            raise TLCError("cannot tokenise TLA value at %d: %r" % (pos, s[pos:pos + 40]))
        toks.append(m.group(1))
        pos = m.end()
    val, i = _pv(toks, 0)
    if i != len(toks):
        raise TLCError("trailing tokens in TLA value: %r" % (toks[i:i + 5],))
    return val


def _pv(t, i):
    tok = t[i]
    if tok == "<<":
        i += 1
        out = []
        while t[i] != ">>":
            v, i = _pv(t, i)
            out.append(v)
            if t[i] == ",":
                i += 1
        return out, i + 1
    if tok == "{":
        i += 1
        out = []
        while t[i] != "}":
            v, i = _pv(t, i)
            out.append(v)
            if t[i] == ",":
                i += 1
        return out, i + 1
    if tok == "[":
        i += 1
        out = {}
        while t[i] != "]":
            k = t[i]
            if t[i + 1] != "|->":
                raise TLCError("record expected")
            v, i = _pv(t, i + 2)
            out[k] = v
            if t[i] == ",":
                i += 1
        return out, i + 1
    if tok == "(":
        # function printed as (k1 :> v1 @@ k2 :> v2)
        i += 1
        out = {}
        while t[i] != ")":
            k, i = _pv(t, i)
            if t[i] != ":>":
                raise TLCError("function expected")
            v, i = _pv(t, i + 1)
            out[_hashable(k)] = v
            if t[i] == "@@":
                i += 1
        return out, i + 1
    if tok.startswith('"'):
        return json.loads(tok), i + 1
    if tok == "TRUE":
        return True, i + 1
    if tok == "FALSE":
        return False, i + 1
    if re.match(r"-?\d+$", tok):
        return int(tok), i + 1
    return tok, i + 1   # model value / identifier


def _hashable(k):
    if isinstance(k, list):
        return tuple(_hashable(x) for x in k)
    return k


_RE_STATES = re.compile(r"(\d+) states generated, (\d+) distinct states found")
_RE_DEPTH = re.compile(r"The depth of the complete state graph search is (\d+)")
_RE_INV = re.compile(r"Error: Invariant (\S+) is violated")
_RE_PROP = re.compile(r"Error: (?:Action|Temporal) propert(?:y|ies) (\S+)?")
_RE_COV = re.compile(r"^<(\w+) line \d+, col \d+ to line \d+, col \d+ of module (\w+)>: (\d+):(\d+)")


def run(spec, cfg=None, mode="check", workers=None, env=None, timeout=1200, coverage=False,
        sim_num=None, sim_depth=None, seed=None, tag=None, extra=None, deadlock=None,
        dfs=False, heap="4g"):
    """Run TLC on /verif/spec/<spec>.tla with /verif/spec/<cfg>.cfg."""
    res = TLCResult()
    cfg = cfg or spec
    if workers is None:
        workers = min(16, os.cpu_count() or 4)
    meta = os.path.join(WORK, "tlc", (tag or spec) + "-" + uuid.uuid4().hex[:8])
    os.makedirs(meta, exist_ok=True)
    # (TLC unpacks its standard modules into a fresh directory under java.io.tmpdir on every run and leaves it behind:
    # pointed at the run's own metadir, which is removed below, instead of /tmp)
    java = ["java", "-XX:+UseParallelGC", "-Xmx" + heap, "-Xss64m", "-Djava.io.tmpdir=" + meta]
    if dfs:
        java.append("-Dtlc2.tool.queue.IStateQueue=StateDeque")
    cmd = java + ["-cp", JAR, "tlc2.TLC", "-config", cfg + ".cfg", "-workers", str(workers),
                  "-metadir", meta, "-noGenerateSpecTE"]
    if mode == "simulate":
        s = "num=%d" % (sim_num or 1000)
        cmd += ["-simulate", s, "-depth", str(sim_depth or 50)]
    if seed is not None:
        cmd += ["-seed", str(seed)]
    if coverage:
        cmd += ["-coverage", "1"]
    if deadlock is False:
        cmd += ["-deadlock"]
    if extra:
        cmd += list(extra)
    cmd.append(spec + ".tla")
    e = dict(os.environ)
    e.pop("JAVA_TOOL_OPTIONS", None)
    if env:
        e.update({k: str(v) for k, v in env.items()})
    res.cmd = " ".join(cmd)
    t0 = time.time()
    try:
        p = subprocess.run(cmd, cwd=SPEC, env=e, stdout=subprocess.PIPE, stderr=subprocess.STDOUT,
                           timeout=timeout, text=True, errors="replace")
        out = p.stdout
        rc = p.returncode
    except subprocess.TimeoutExpired as te:
        out = (te.stdout or b"")
        if isinstance(out, bytes):
            out = out.decode("utf-8", "replace")
        rc = -9
        out += "\nTIMEOUT after %ss" % timeout
    finally:
        shutil.rmtree(meta, ignore_errors=True)
    res.wall = time.time() - t0
    res.stdout = out
    in_cex = False
    cex = []
    pending = None
    for line in out.splitlines():
        m = _RE_STATES.search(line)
        if m:
            res.generated, res.distinct = int(m.group(1)), int(m.group(2))
        m = _RE_DEPTH.search(line)
        if m:
            res.depth = int(m.group(1))
        m = _RE_INV.search(line)
        if m:
            res.violated = m.group(1)
            in_cex = True
        if line.startswith("Error: Action property") or line.startswith("Error: Temporal properties"):
            res.violated = res.violated or line.split("Error:")[1].strip()
            in_cex = True
        if line.startswith("Error: Assumption"):
            res.violated = res.violated or line.split("Error:")[1].strip()
        if line.startswith("Error: Deadlock"):
            res.violated = res.violated or "Deadlock"
            in_cex = True
        if in_cex:
            cex.append(line)
        m = _RE_COV.match(line)
        if m:
            a = m.group(2) + "!" + m.group(1)
            d, tot = int(m.group(3)), int(m.group(4))
            old = res.coverage.get(a, (0, 0))
            res.coverage[a] = (old[0] + d, old[1] + tot)
        ls = line.strip()
        if pending is not None:
            # TLC wraps long printed values over several lines: join until the brackets balance
            pending += " " + ls
            if _balanced(pending):
                res.prints.append(re.sub(r"^<<\s+", "<<", pending))
                pending = None
            continue
        if ls.startswith("<<") or ls.startswith('"{') or ls.startswith('"['):
            if ls.startswith("<<") and not _balanced(ls):
                pending = ls
            else:
                res.prints.append(ls)
    res.counterexample = "\n".join(cex[:400])
    if mode == "simulate" and res.generated == 0:
        m = re.findall(r"Progress: (\d+) states checked, (\d+) traces generated", out)
        if m:
            res.generated = int(m[-1][0])
            res.distinct = int(m[-1][1])
    if res.violated:
        res.status = "violation"
    elif rc == 0 or (mode == "simulate" and rc in (0,) ):
        res.status = "ok"
    else:
        res.status = "error"
    if res.status == "error" and mode == "simulate" and "TIMEOUT" not in out and \
            re.search(r"traces generated", out) and "Error:" not in out:
        res.status = "ok"
    return res


def _balanced(t):
    depth = 0
    i = 0
    instr = False
    while i < len(t):
        c = t[i]
        if instr:
            if c == "\\":
                i += 2
                continue
            if c == '"':
                instr = False
            i += 1
            continue
        if c == '"':
            instr = True
            i += 1
        elif t.startswith("<<", i):
            depth += 1
            i += 2
        elif t.startswith(">>", i):
            depth -= 1
            i += 2
        else:
            i += 1
    return depth <= 0


def require_ok(res, what):
    if res.status == "error":
        lines = res.stdout.splitlines()
        first = [i for i, ln in enumerate(lines) if ln.startswith("Error:") or "Exception" in ln]
        head = "\n".join(lines[first[0]:first[0] + 12]) if first else ""
        tail = head + "\n...\n" + "\n".join(lines[-8:])
        raise TLCError("TLC failed for %s (cmd: %s):\n%s" % (what, res.cmd, tail))
    return res


def sany(module):
    p = subprocess.run(["java", "-cp", JAR, "tla2sany.SANY", module + ".tla"], cwd=SPEC,
                       stdout=subprocess.PIPE, stderr=subprocess.STDOUT, text=True)
    ok = p.returncode == 0 and "Semantic errors" not in p.stdout and "*** Errors" not in p.stdout \
        and "Fatal errors" not in p.stdout and "Could not parse" not in p.stdout
    return ok, p.stdout
