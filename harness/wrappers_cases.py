"""C14: every state of spec/Wrappers.tla as one implementation test of the model wrappers."""
import warnings

import numpy as np

warnings.filterwarnings("ignore")
FEATS = ["a", "b", "c"]


def _val(i, f):
    return 10 * i + FEATS.index(f) + 1


def _shape_out(w_rows, shape, dtype):
    """array of the stated shape for the per-row weighted sums w_rows"""
    with np.errstate(all="ignore"):
        w = (np.asarray(w_rows, dtype=float) % 100).astype(dtype) if dtype in ("int8", "uint8") else np.asarray(w_rows, dtype=float).astype(dtype)
    if shape == "scalar":
        return w.reshape(())            # 0-d
    if shape == "one":
        return w.reshape((1,))
    if shape == "one_one":
        return w.reshape((1, 1))
    if shape == "n":
        return w.reshape((-1,))
    if shape == "n_one":
        return w.reshape((-1, 1))
    return np.stack([w * (k + 1) for k in range(3)], axis=1)     # (n, c)


def _canon_equal(got, want):
    """want: dict from ToJson ({'output': v} or {'0': v0, ...})"""
    if not isinstance(got, dict) or len(got) != len(want):
        return False
    for k, v in want.items():
        key = k if k == "output" else int(k)
        if key not in got:
            return False
        try:
            if abs(float(got[key]) - float(v)) > 1e-6 * (1 + abs(float(v))):
                return False
        except Exception:
            return False
    return True


def array_case(rec, wrapper_kind, dtype):
    """returns list of (clause, detail)"""
    from ixai.utils.wrappers import SklearnWrapper, TorchWrapper
    names = list(rec["names"]) or None
    batch = rec["batch"]
    nrows = max(batch, 1)
    rows = [{f: float(_val(i, f)) for f in rec["keyorder"]} for i in range(1, nrows + 1)]
    received = []

    def weighted(arr):
        a = np.asarray(arr, dtype=float)
        received.append(a.copy())
        return [sum((k + 1) * a[r, k] for k in range(a.shape[1])) for r in range(a.shape[0])]

    produced = []
    if wrapper_kind == "sklearn":
        def predict(arr):
            out = _shape_out(weighted(arr), rec["shape"], dtype)
            produced.append(out)
            return out
        w = SklearnWrapper(predict, feature_names=names)
    else:
        import torch

        def link(t):
            out = _shape_out(weighted(t.detach().cpu().numpy()), rec["shape"], "float32" if dtype == "int64" else dtype)
            produced.append(out)
            return torch.tensor(out)
        w = TorchWrapper(link, feature_names=names)
    x = rows[0] if batch == 0 else rows
    probs = []
    try:
        got = w(x)
    except Exception as e:
        return [("wrapper.raises", "%s %s shape=%s batch=%d names=%s: %s: %s" % (wrapper_kind, dtype, rec["shape"], batch, names, type(e).__name__, str(e)[:150]))]
    want = rec["expected"]
    if dtype not in ("float64", "float32", "int64") and len(produced) == 1:
        # dtypes whose cast changes the numbers (bool, narrow / unsigned integers, half precision): the structure of the
        # canonical form is the specification's, the values are those of the array the prediction function returned
        arr = np.asarray(produced[0])

        def revalue(w_, flat):
            return {k: float(flat[i]) for i, k in enumerate(w_.keys())}
        if batch == 0:
            want = revalue(want, arr.reshape(-1))
        else:
            want = [revalue(w_, np.asarray(arr[i]).reshape(-1)) for i, w_ in enumerate(want)]
    if batch == 0:
        ok = _canon_equal(got, want)
    else:
        ok = isinstance(got, list) and len(got) == batch and all(_canon_equal(g, wnt) for g, wnt in zip(got, want))
    if not ok:
        probs.append(("wrapper.canonical_form", "%s %s shape=%s batch=%d names=%s key order %s: returned %r, canonical form %r" % (
            wrapper_kind, dtype, rec["shape"], batch, names, rec["keyorder"], got, want)))
    reach = [[float(v) for v in r] for r in rec["reaching"]]
    if len(received) != 1 or received[0].tolist() != reach:
        probs.append(("wrapper.features_reaching_model", "%s names=%s key order %s: the prediction function received %s, expected %s" % (
            wrapper_kind, names, rec["keyorder"], [r.tolist() for r in received], reach)))
    return probs


def seq_case(rec, wrapper_kind):
    """a sequence of calls (changing key orders, dict / list inputs, extra keys) on ONE wrapper object"""
    from ixai.utils.wrappers import SklearnWrapper, TorchWrapper
    names = list(rec["names"]) or None
    received = []

    def weighted(arr):
        a = np.asarray(arr, dtype=float)
        received.append(a.copy())
        return [sum((k + 1) * a[r, k] for k in range(a.shape[1])) for r in range(a.shape[0])]

    if wrapper_kind == "sklearn":
        w = SklearnWrapper(lambda arr: _shape_out(weighted(arr), "n_c", "float64"), feature_names=names)
    else:
        import torch
        w = TorchWrapper(lambda t: torch.tensor(_shape_out(weighted(t.detach().cpu().numpy()), "n_c", "float64")), feature_names=names)

    def next_order(ko):
        return [ko[1], ko[2], ko[0]]

    for ci, (c, want) in enumerate(zip(rec["calls"], rec["expected"])):
        def row(i, ko):
            d = {f: float(_val(i, f)) for f in ko}
            if c["extra"]:
                d = {"zz": 999.0, **d} if i % 2 else {**d, "zz": 999.0}
            return d
        if c["batch"] == 0:
            x = row(1, list(c["ko"]))
        else:
            x = [row(i, list(c["ko"]) if i == 1 else next_order(list(c["ko"]))) for i in range(1, c["batch"] + 1)]
        try:
            got = w(x)
        except Exception as e:
            return [("wrapper.raises", "%s call %d of %s: %s: %s" % (wrapper_kind, ci + 1, rec["calls"], type(e).__name__, str(e)[:120]))]
        if c["batch"] == 0:
            ok = _canon_equal(got, want if isinstance(want, dict) else {str(i): v for i, v in enumerate(want)})
        else:
            ok = isinstance(got, list) and len(got) == c["batch"] and all(
                _canon_equal(g, wnt if isinstance(wnt, dict) else {str(i): v for i, v in enumerate(wnt)}) for g, wnt in zip(got, want))
        if not ok:
            return [("wrapper.stateless_canonical_form", "%s names=%s: call %d of the sequence %s returned %r, canonical form %r" % (
                wrapper_kind, names, ci + 1, rec["calls"], got, want))]
    return []


def river_case(rec):
    from ixai.utils.wrappers import RiverWrapper
    labels = list(rec["labels"])
    it = iter(labels)
    w = RiverWrapper(lambda x: next(it))
    probs = []
    for i, (lab, want) in enumerate(zip(labels, rec["outs"])):
        got = w({"a": 1.0})
        if not isinstance(got, dict) or set(got) != set(want) or any(float(got[k]) != float(v) for k, v in want.items()):
            probs.append(("wrapper.river_one_hot", "labels so far %s: returned %r, canonical %r" % (labels[: i + 1], got, want)))
            break
    # list input = the list of the row-wise results, in order
    it2 = iter(labels)
    w2 = RiverWrapper(lambda x: next(it2))
    try:
        got = w2([{"a": 1.0}] * len(labels))
    except Exception as e:
        return probs + [("wrapper.river_batch", "list input raised %s: %s" % (type(e).__name__, str(e)[:120]))]
    if not isinstance(got, list) or any(not isinstance(g, dict) for g in got):
        return probs + [("wrapper.river_batch", "list input: %r is not a list of dicts (canonical %r)" % (got, rec["outs"]))]
    if [sorted(g.items()) for g in got] != [sorted((k, float(v)) for k, v in o.items()) for o in rec["outs"]]:
        probs.append(("wrapper.river_batch", "list input: %r, canonical %r" % (got, rec["outs"])))
    return probs


def river_other():
    from ixai.utils.wrappers import RiverWrapper
    probs = []
    w = RiverWrapper(lambda x: {"p": 0.25, "q": 0.75})
    if w({"a": 1}) != {"p": 0.25, "q": 0.75}:
        probs.append(("wrapper.river_passthrough", "dict outputs must pass through"))
    for val in (3, 2.5, np.float64(1.5), True, np.int64(4)):
        w = RiverWrapper(lambda x, v=val: v)
        got = w({"a": 1})
        if got != {"output": float(val)}:
            probs.append(("wrapper.river_number", "numeric output %r gives %r" % (val, got)))
    return probs


def dispatch_cases(thorough):
    """validate_model_function: Wrapper instances unchanged; bound methods of sklearn / river models and torch
    modules wrapped in the matching wrapper"""
    from ixai.utils.validators import validate_model_function
    from ixai.utils.wrappers import SklearnWrapper, TorchWrapper, RiverWrapper
    probs, n = [], 0
    w = SklearnWrapper(lambda a: a)
    if validate_model_function(w) is not w:
        probs.append(("dispatch.wrapper_unchanged", "a Wrapper instance was not returned unchanged"))
    import sklearn.utils
    ests = sklearn.utils.all_estimators()
    if not thorough:
        ests = ests[::6]
    for name, cls in ests:
        try:
            est = cls()
        except Exception:
            continue
        for meth in ("predict", "predict_proba", "decision_function"):
            try:
                m = getattr(est, meth)
            except Exception:
                continue
            n += 1
            got = validate_model_function(m)
            if type(got) is not SklearnWrapper:
                probs.append(("dispatch.sklearn", "%s.%s -> %s" % (name, meth, type(got).__name__)))
    import inspect
    import river
    mods = ["linear_model", "tree", "naive_bayes", "neighbors", "ensemble", "forest", "dummy"]
    for mn in mods:
        try:
            mod = __import__("river." + mn, fromlist=["x"])
        except Exception:
            continue
        for name in dir(mod):
            cls = getattr(mod, name)
            if not inspect.isclass(cls):
                continue
            for meth in ("predict_one", "predict_proba_one"):
                if not hasattr(cls, meth):
                    continue
                try:
                    obj = cls()
                except Exception:
                    continue
                n += 1
                got = validate_model_function(getattr(obj, meth))
                if type(got) is not RiverWrapper:
                    probs.append(("dispatch.river", "%s.%s.%s -> %s" % (mn, name, meth, type(got).__name__)))
    import torch
    for mod in (torch.nn.Linear(3, 1), torch.nn.Sequential(torch.nn.Linear(3, 4), torch.nn.ReLU(), torch.nn.Linear(4, 2))):
        n += 1
        got = validate_model_function(mod)
        if type(got) is not TorchWrapper:
            probs.append(("dispatch.torch", "%s -> %s" % (type(mod).__name__, type(got).__name__)))
    f = lambda x: {"output": 0.0}
    if validate_model_function(f) is not f:
        probs.append(("dispatch.plain_function", "a plain function must be used directly"))
    return probs, n
