"""Runner for the TLA+ proof system (tlapm): machine-checked proofs of inductive invariants for unbounded parameters."""
import os
import re
import shutil
import subprocess
import time
import uuid

from harness import tlc


def prove(ctx, module, label, timeout=900):
    """tlapm --cleanfp <module>.tla (no fingerprint cache: every obligation is re-proved).  Adds a stage; raises TLCError
    when an obligation fails or the tool does."""
    cache = os.path.join(tlc.WORK, "tlaps", uuid.uuid4().hex[:8])
    os.makedirs(cache, exist_ok=True)
    # the back-end provers work under wall-clock timeouts: on a loaded machine (several checks in parallel) an obligation can
    # time out although it is provable - timeouts are stretched, and a failed run is repeated (with the obligations proved
    # so far kept) before it counts
    t0 = time.time()
    so, m = "", None
    for attempt, stretch in enumerate(("4", "12", "30")):
        cmd = ["tlapm"] + (["--cleanfp"] if attempt == 0 else []) + ["--stretch", stretch, "--cache-dir", cache, module + ".tla"]
        try:
            p = subprocess.run(cmd, cwd=tlc.SPEC, capture_output=True, text=True, timeout=timeout)
        except subprocess.TimeoutExpired:
            shutil.rmtree(cache, ignore_errors=True)
            raise tlc.TLCError("tlapm timed out: %s" % " ".join(cmd))
        so = p.stdout + p.stderr
        m = re.search(r"All (\d+) obligations? proved", so)
        if m:
            break
    shutil.rmtree(cache, ignore_errors=True)
    if not m:
        raise tlc.TLCError("tlapm did not prove %s (%s):\n%s" % (module, " ".join(cmd), so[-2500:]))
    ctx.cmds.append(" ".join(cmd))
    ctx.add_stage("TLAPS proof %s: %s" % (module, label), "machine_checked_proof", obligations=int(m.group(1)),
                  wall_s=round(time.time() - t0, 1), unbounded="all parameters of the module")
    return int(m.group(1))
