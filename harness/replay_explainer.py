"""Direction A for the incremental explainers: behaviours exported by TLC from
spec/MC_IncExplainerLog.tla are replayed step by step into the real IncrementalSage /
IncrementalPFI (stream items, feature orders, background-row draws, reservoir outcomes and
fault positions come from the behaviour) and the abstract state is compared after every call."""
from fractions import Fraction as F

from harness import gen_explainer as G
from harness.fieldp import NonFinite, qpair
from harness.proxies import TapeMismatch


def _fun(v):
    """decode a TLA+ function printed by ToJson: list (domain 1..n) or dict (other domains)"""
    if isinstance(v, list):
        return {i + 1: x for i, x in enumerate(v)}
    return {int(k): x for k, x in v.items()}


class BehaviourScript:
    """Serves the random draws of a TLC behaviour to the RNG tape, in the order the code asks for them."""

    def __init__(self, beh, cfg, names):
        self.beh, self.cfg, self.names = beh, cfg, names

    def on_begin(self, ci, seen):
        rec = self.beh[ci]
        if self.cfg["Mode"] == "sage" and rec["order"]:
            return [("perm", self.cfg["D"], [f - 1 for f in rec["order"]])]
        return []

    def on_impute(self, ci, k, feature_subset, n_samples, nrows):
        rec = self.beh[ci]
        if k >= len(rec["rows"]) or self.cfg["Strategy"] == "default":
            return []
        out = []
        for dr in rec["rows"][k]:
            dr = _fun(dr)
            if self.cfg["Strategy"] == "joint":
                r = next(iter(dr.values())) if dr else 1     # empty subset: the code still draws one row
                out.append(("uniform", nrows, r - 1))
            else:
                for f in feature_subset:                     # the code's own iteration order
                    out.append(("uniform", nrows, dr[self.names.index(f) + 1] - 1))
        return out

    def after_call(self, ci, call):
        # the specification leaves `seen` after a failed call open (both values are behaviours);
        # this behaviour can only be followed further if the implementation made the same choice
        rec = self.beh[ci]
        return not (call["outcome"] != "ret" and call["post"]["seen"] != rec["seen"])

    def on_store(self, ci, nrows):
        rec = self.beh[ci]
        if self.cfg["StoreKind"] == "geometric" and nrows >= self.cfg["Cap"]:
            if rec["choice"] > 0:
                return [("u01", None, 0.0), ("uniform", self.cfg["Cap"], rec["choice"] - 1)]
            return [("u01", None, 0.999999)]
        return []


def scenario_of(beh, cfg):
    stream = [([F(v) for v in rec["x"]], rec["y"], (rec["n"] if rec.get("n", cfg["NInner"]) != cfg["NInner"] else None),
               bool(rec["upd"])) for rec in beh]
    faults = {i: rec["fault"] for i, rec in enumerate(beh) if rec["fault"]}
    storage = {"interval": ("interval", cfg["Cap"]), "batch": ("batch",),
               "geometric": ("geometric", cfg["Cap"], cfg.get("P"))}[cfg["StoreKind"]]
    return G.Scenario(cls=cfg["Mode"], d=cfg["D"], names="idx", n_inner=cfg["NInner"], dynamic=cfg["Kind"] == "es",
                      alpha=F(*cfg["Alpha"]), storage=storage, imputer=cfg["Strategy"], default_value=3,
                      nlab=1 if cfg["ModelKind"] == "scalar" else 2, tables="spec:" + cfg["ModelKind"],
                      stream=stream, faults=faults, numeric=cfg.get("numeric", "fraction"))


def replay(beh, cfg, tol=None):
    """Returns (problems, trace, stats).  problems: list of (clause, call index, detail)."""
    sc = scenario_of(beh, cfg)
    names = G.NAME_SCHEMES["idx"](cfg["D"])
    prov = BehaviourScript(beh, cfg, names)
    problems = []
    try:
        trace, extra = G.run_scenario(sc, tape_mode="script", script=[], keep_raw=True, provider=prov)
    except TapeMismatch as e:
        return [("replay.draw_range" if e.reason == "range" else "replay.not_followed", -1, str(e))], None, sc
    except G.NotObservable as e:
        return [("replay.not_followed", -1, "abstract state not observable: %s" % e)], None, sc
    except NonFinite as e:
        # exact inputs, and yet the explainer's state is NaN / infinite (the specification's values are rationals)
        return [("replay.state.imp", 0, "the implementation reached the non-finite value %s" % e),
                ("replay.outcome", 0, "the implementation reached the non-finite value %s" % e)], None, sc
    raws = extra["raws"]
    extra_rows = extra["rows_after"]
    exact = tol is None

    def same(a, b):
        if exact:
            return F(a) == F(b)
        return abs(float(a) - float(b)) <= tol * (1 + abs(float(b)))

    for i, (rec, call, raw) in enumerate(zip(beh, trace["calls"], raws)):
        want_out = "ret" if rec["outcome"] == "ok" else "exc"
        if call["outcome"] != want_out:
            problems.append(("replay.outcome", i, "specification: %s, implementation: %s %s" % (want_out, call["outcome"], call["exc"])))
            break
        faulted = want_out == "exc"
        if call.get("unconsumed") and not faulted:
            problems.append(("replay.not_followed", i, "%d draws of the behaviour were never requested by the code" % call["unconsumed"]))
        clause = "replay.fault_atomic" if faulted else "replay.state"
        # importance / variance per feature (absent key = tracker never updated = 0)
        for nm, key in (("imp", "imp"), ("var", "var")):
            want = _fun(rec[nm]) if rec[nm] else {}
            got = {names.index(k) + 1: v for k, v in raw[nm].items()} if all(k in names for k in raw[nm]) else None
            if got is None or set(got) != set(want) or any(not same(got[f], qpair(want[f])) for f in want):
                problems.append((clause + "." + nm, i, "specification %s, implementation %s" % (
                    {f: str(qpair(v)) for f, v in want.items()}, {str(k): str(v) for k, v in raw[nm].items()})))
        if cfg["Mode"] == "sage":
            for nm in ("ml", "mo"):
                if not same(raw[nm], qpair(rec[nm])):
                    problems.append((clause + "." + nm, i, "specification %s, implementation %s" % (qpair(rec[nm]), raw[nm])))
            want = {(0 if k == "output" else k): v for k, v in raw["mp"].items()}
            wspec = _fun(rec["mp"]) if rec["mp"] else {}
            if set(want) != set(wspec) or any(not same(want[k], qpair(wspec[k])) for k in wspec):
                problems.append((clause + ".mp", i, "specification %s, implementation %s" % (wspec, raw["mp"])))
        if cfg["Mode"] == "sage":
            tot = sum(raw["imp"].values())
            if not same(tot, raw["ml"] - raw["mo"]):
                problems.append(("replay.efficiency", i, "sum of importance values %s, explained loss %s" % (tot, raw["ml"] - raw["mo"])))
        if not faulted:
            rows, _ = extra_rows[i]
            got_rows = [[F(r[nm]) for nm in names] for r in rows] if rows is not None else None
            if got_rows is not None and got_rows != [[F(v) for v in r] for r in rec["store"]]:
                problems.append(("replay.storage", i, "specification %s, implementation %s" % (rec["store"], got_rows)))
        if not faulted and call["post"]["seen"] != rec["seen"]:
            problems.append(("replay.seen", i, "specification %d, implementation %d" % (rec["seen"], call["post"]["seen"])))
        if problems:
            break
        if faulted and i + 1 < len(beh) and call["post"]["seen"] != rec["seen"]:
            # the specification leaves `seen` after a failed call open; continue only if they agree
            break
    return problems, trace, sc
