"""C13: histories of spec/MetricLoss.tla replayed on every river metric that validate_loss_function accepts."""
import copy
import inspect
import math
import warnings

warnings.filterwarnings("ignore")


def accepted_metrics():
    import river.metrics as M
    from river.metrics.base import Metric
    from ixai.utils.validators.loss import validate_loss_function
    out = []
    for name in sorted(dir(M)):
        cls = getattr(M, name)
        if inspect.isclass(cls) and issubclass(cls, Metric) and not inspect.isabstract(cls):
            try:
                m = cls()
                validate_loss_function(m)
            except Exception:
                continue
            out.append(name)
    return out


REGRESSION = {"MAE", "MSE", "RMSE", "RMSLE", "MAPE", "SMAPE"}
PROBA = {"LogLoss", "ROCAUC", "RollingROCAUC", "RollingPRAUC"}
DICT = {"CrossEntropy"}
MULTI = {"MacroF1", "MacroJaccard", "MacroPrecision", "MacroRecall", "MicroF1", "MicroJaccard", "MicroPrecision", "MicroRecall",
         "WeightedF1", "WeightedJaccard", "WeightedPrecision", "WeightedRecall", "AdjustedMutualInfo", "AdjustedRand",
         "Completeness", "FowlkesMallows", "Homogeneity", "MutualInfo", "NormalizedMutualInfo", "Rand", "VBeta",
         "CohenKappa", "Accuracy"}


NVARIANTS = 4


def pairs_for(name, variant=0):
    """three (y_true, prediction dict) pairs per metric family; variant > 0: other representations of the same kind of
    input - exact zeros and ones, negative values, ints / bools / NumPy scalars, string labels, a true label whose
    probability is exactly 0 or that is missing from the dict"""
    import numpy as np
    v = variant % NVARIANTS
    if v:
        if name in REGRESSION:
            return [None,
                    {"p1": (0.0, {"output": 0.0}), "p2": (-1.5, {"output": 2}), "p3": (np.float64(3), {"output": np.float64(-3.25)})},
                    {"p1": (2, {"output": 0}), "p2": (0, {"output": 5}), "p3": (7, {"output": 7.0})},
                    {"p1": (1e-9, {"output": 0.0}), "p2": (-4.0, {"output": -4.0}), "p3": (0.5, {"output": 1e6})}][v]
        if name in PROBA:
            return [None,
                    {"p1": (True, {"output": 1.0}), "p2": (False, {"output": 0.0}), "p3": (True, {"output": 0.0})},
                    {"p1": (False, {"output": 1}), "p2": (True, {"output": 0.5}), "p3": (True, {"output": np.float64(0.25)})},
                    {"p1": (1, {"output": 0.0}), "p2": (0, {"output": 0}), "p3": (np.bool_(True), {"output": 0.999})}][v]
        if name in DICT:
            return [None,
                    {"p1": (1, {0: 1.0, 1: 0.0}), "p2": (0, {0: 1, 1: 0}), "p3": ("b", {"a": 1.0, "b": 0.0})},
                    {"p1": (2, {0: 0.5, 1: 0.5}), "p2": (0, {0: 0.0, 1: 0.0, 2: 1.0}), "p3": (1, {0: False, 1: True})},
                    # (p1 then p2: a true label that was a key of an earlier prediction and is missing from a later one)
                    {"p1": ("b", {"a": np.float64(1.0), "b": np.float64(0.0)}), "p2": ("b", {"a": 0.25, "c": 0.75}),
                     "p3": (0, {0: 1e-20, 1: 1.0})}][v]
        if name in MULTI:
            return [None,
                    {"p1": ("a", {"output": "a"}), "p2": ("a", {"output": "b"}), "p3": ("c", {"output": "a"})},
                    {"p1": (1, {"output": 1}), "p2": (0, {"output": 2}), "p3": (0, {"output": 0})},
                    {"p1": (np.int64(2), {"output": np.int64(2)}), "p2": (np.int64(0), {"output": np.int64(1)}), "p3": (3, {"output": 0})}][v]
        return [None,
                {"p1": (0, {"output": 1}), "p2": (1, {"output": 1}), "p3": (1, {"output": 0})},
                {"p1": (np.bool_(True), {"output": np.bool_(False)}), "p2": (False, {"output": False}), "p3": (True, {"output": True})},
                {"p1": (False, {"output": 0}), "p2": (True, {"output": 1}), "p3": (False, {"output": True})}][v]
    if name in REGRESSION:
        return {"p1": (2.0, {"output": 3.5}), "p2": (2.0, {"output": 0.25}), "p3": (4.0, {"output": 4.0})}
    if name in PROBA:
        return {"p1": (True, {"output": 0.8}), "p2": (False, {"output": 0.6}), "p3": (True, {"output": 0.3})}
    if name in DICT:
        return {"p1": (0, {0: 0.7, 1: 0.2, 2: 0.1}), "p2": (0, {0: 0.3, 1: 0.3, 2: 0.4}), "p3": (1, {0: 0.5, 1: 0.25, 2: 0.25})}
    if name in MULTI:
        return {"p1": (0, {"output": 0}), "p2": (2, {"output": 1}), "p3": (1, {"output": 1})}
    return {"p1": (True, {"output": True}), "p2": (False, {"output": True}), "p3": (True, {"output": False})}


def same(a, b):
    try:
        fa, fb = float(a), float(b)
    except Exception:
        return a == b
    if math.isnan(fa) and math.isnan(fb):
        return True
    return fa == fb or abs(fa - fb) <= 1e-12 * (1 + abs(fb))


def state_of(metric):
    """observable state: reported value plus the confusion matrix / internal statistics when exposed"""
    try:
        val = metric.get()
    except Exception as e:
        val = "raises:" + type(e).__name__
    extra = None
    cm = getattr(metric, "cm", None)
    if cm is not None:
        try:
            # zero counts left behind by update + revert are not observable through the metric
            rows = [(str(k), sorted((str(k2), v2) for k2, v2 in v.items() if v2 != 0)) for k, v in cm.data.items()]
            extra = (sorted(r for r in rows if r[1]), float(cm.total_weight))
        except Exception:
            extra = None
    return val, extra


def single_value(name, pair):
    """the value a fresh metric reports after that single pair"""
    import river.metrics as M
    y, pred = pair
    m = getattr(M, name)()
    arg = pred if name in DICT else pred.get("output", 0)
    try:
        m.update(y_true=y, y_pred=arg)
        return ("value", m.get())
    except Exception as e:
        return ("raises", type(e).__name__)


def replay_history(name, hist, nwrappers, reuse_buffer=False, variant=0):
    """hist: list of (wrapper index, pair name).  Returns list of (clause, detail)."""
    import river.metrics as M
    from ixai.utils.validators.loss import validate_loss_function
    metric = getattr(M, name)()
    base = state_of(metric)
    wrappers = {}
    probs = []
    for w in sorted({h[0] for h in hist}):
        wrappers[w] = validate_loss_function(metric)
        if not same(state_of(metric)[0], base[0]) or state_of(metric)[1] != base[1]:
            probs.append(("metric.probe_leaves_state", "%s: validate_loss_function changed the metric (%r -> %r)" % (name, base, state_of(metric))))
            return probs
    pairs = pairs_for(name, variant)
    try:
        sign = -1.0 if getattr(metric, "bigger_is_better", False) else 1.0
    except NotImplementedError:
        sign = 1.0
    buf = {}
    for i, (w, pn) in enumerate(hist):
        y, pred = pairs[pn]
        if reuse_buffer:
            # a caller may reuse one prediction dict object and overwrite its contents between calls
            buf.clear()
            buf.update(pred)
            pred = buf
        pred_copy = copy.deepcopy(pred)
        want = single_value(name, (y, pred))
        try:
            got = ("value", wrappers[w](y, pred))
        except Exception as e:
            got = ("raises", type(e).__name__)
        if want[0] == "value":
            ok = got[0] == "value" and same(got[1], want[1] * sign)
        else:
            ok = got == want or got[0] == "raises"
        if not ok:
            probs.append(("metric.value_is_single", "%s call %d (%s by wrapper %d): returned %r, a fresh metric after that single pair gives "
                          "%r x sign %g" % (name, i + 1, pn, w, got, want, sign)))
            break
        now = state_of(metric)
        if not same(now[0], base[0]) or now[1] != base[1]:
            probs.append(("metric.state_unchanged", "%s after call %d (%s): metric state %r, before %r" % (name, i + 1, pn, now, base)))
            break
        if pred != pred_copy:
            probs.append(("metric.args_unmodified", "%s modified the prediction dict" % name))
            break
    return probs


def routing():
    """single-value metrics receive the 'output' entry, dict-based metrics the whole dict"""
    import river.metrics as M
    from ixai.utils.validators.loss import validate_loss_function
    seen = {}

    class RecMAE(M.MAE):
        def update(self, y_true, y_pred, *a, **k):
            seen.setdefault("mae", []).append(y_pred)
            return super().update(y_true, y_pred, *a, **k)

    class RecCE(M.CrossEntropy):
        def update(self, y_true, y_pred, *a, **k):
            seen.setdefault("ce", []).append(y_pred)
            return super().update(y_true, y_pred, *a, **k)

    probs = []
    l1 = validate_loss_function(RecMAE())
    seen.clear()
    l1(2.0, {"output": 3.5, "other": 9.0})
    if seen.get("mae") != [3.5]:
        probs.append(("metric.routing", "single-value metric received %r instead of the 'output' entry 3.5" % (seen.get("mae"),)))
    l2 = validate_loss_function(RecCE())
    seen.clear()
    d = {0: 0.7, 1: 0.3}
    l2(0, d)
    if seen.get("ce") != [d]:
        probs.append(("metric.routing", "dict-based metric received %r instead of the whole dict" % (seen.get("ce"),)))
    return probs
