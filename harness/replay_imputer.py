"""Direction A for C06: behaviours of spec/MC_Imputers.tla replayed into MarginalImputer / DefaultImputer."""
import copy
from collections import deque

from harness.proxies import Tape, TapeMismatch
from harness.replay_explainer import _fun

CONTAINERS = {
    "list": lambda names: list(names),
    "tuple": lambda names: tuple(names),
    "set": lambda names: set(names),
    "frozenset": lambda names: frozenset(names),
    "dict_keys": lambda names: {n: None for n in names}.keys(),
    "reversed_list": lambda names: list(reversed(names)),
}
STORAGES = ["batch", "interval", "geometric", "uniform"]


def _storage(kind, rows):
    from ixai.storage import BatchStorage, IntervalStorage, GeometricReservoirStorage, UniformReservoirStorage
    n = len(rows)
    if kind == "batch":
        st = BatchStorage(store_targets=False)
    elif kind == "interval":
        st = IntervalStorage(size=n, store_targets=True)
    elif kind == "geometric":
        st = GeometricReservoirStorage(size=n, store_targets=False)
    else:
        st = UniformReservoirStorage(size=n, store_targets=True)
    for r in rows:          # fill phase: deterministic for every kind
        st.update(r, 0)
    return st


def _phi(v, zero):
    """relabelling of the specification's values: with zero set, the value of feature 1 in stored row 1 is the number 0
    (a background value is a value even when it is falsy) and the instance's last feature is 0.0 with another sign bit"""
    if zero == 2:
        # mixed numeric types: the instance holds ints, every background / default value is a float with a fractional
        # part (and the other way round for feature 2): a background value is used as it is, never coerced to the type
        # the instance has
        if v >= 100:
            return float(v) + 0.5 if v % 10 != 2 else int(v)
        return int(v) if v != 20 else 20.25
    if zero and v == 101:
        return 0
    return v


def replay(rec, container, storage_kind, names_kind="str", zero=False, keywords=False):
    """returns list of (clause, detail)"""
    from ixai.imputer import MarginalImputer, DefaultImputer
    d, n, nrows, strategy = rec["d"], rec["n"], rec["nrows"], rec["strategy"]
    names = ["f%d" % i for i in range(1, d + 1)] if names_kind == "str" else [float(i) if i % 2 else i for i in range(1, d + 1)]
    x = {nm: _phi(10 * (i + 1), zero) for i, nm in enumerate(names)}
    rows = [{nm: _phi(100 * r + (i + 1), zero) for i, nm in enumerate(names)} for r in range(1, nrows + 1)]
    seen_inputs = []

    def model(inp):
        seen_inputs.append(dict(inp))
        return {"output": float(sum(inp[nm] for nm in names))}

    sub_idx = list(rec["subset"])
    subset = CONTAINERS[container]([names[i - 1] for i in sub_idx])
    storage = _storage(storage_kind, rows)
    script = []
    draws = [_fun(dr) if dr else {} for dr in rec["draws"]]
    if strategy == "joint":
        for dr in draws:
            script.append(("uniform", nrows, (next(iter(dr.values())) if dr else 1) - 1))
    elif strategy == "product":
        for dr in draws:
            for nm in list(subset):
                script.append(("uniform", nrows, dr[names.index(nm) + 1] - 1))
    if strategy == "default":
        imp = DefaultImputer(model, {nm: _phi(1000 + (i + 1), zero) for i, nm in enumerate(names)})
    else:
        imp = MarginalImputer(model, strategy, storage)
    x_before, subset_before = copy.deepcopy(x), copy.deepcopy(list(subset))
    data_before = copy.deepcopy([list(c) for c in storage.get_data()])
    probs = []
    try:
        with Tape(mode="script", script=script) as tape:
            res = imp.impute(feature_subset=subset, x_i=x, n_samples=n) if keywords else imp.impute(subset, x, n)
            leftover = len(tape.script)
    except TapeMismatch as e:
        return [("replay.impute.draw_range" if e.reason == "range" else "replay.impute.not_followed", str(e))]
    want = [[_phi(inp[f - 1], zero) for f in range(1, d + 1)] for inp in rec["inputs"]]
    got = [[inp.get(nm) for nm in names] for inp in seen_inputs]
    if strategy == "default":
        # DefaultImputer may evaluate the (deterministic) model once and repeat the prediction
        if not got or any(g != want[0] for g in got) or len(got) not in (1, n):
            probs.append(("replay.impute.inputs", "model inputs %s, specification %s" % (got, want)))
    elif got != want:
        probs.append(("replay.impute.inputs", "model inputs %s, specification %s (subset %s, draws %s)" % (got, want, sub_idx, rec["draws"])))
    if any(set(inp) != set(names) for inp in seen_inputs):
        probs.append(("replay.impute.extra_keys", "model input keys %s" % [sorted(map(str, inp)) for inp in seen_inputs][:2]))
    if leftover:
        probs.append(("replay.impute.not_followed", "%d scripted draws were not consumed" % leftover))
    if not isinstance(res, list) or len(res) != n or any(not isinstance(r, dict) or "output" not in r for r in res):
        probs.append(("replay.impute.count", "impute returned %r for n_samples=%d" % (res if not isinstance(res, list) else len(res), n)))
    elif strategy != "default":
        exp = [{"output": float(sum(w))} for w in want]
        if res != exp:
            probs.append(("replay.impute.predictions", "returned %s, expected %s" % (res, exp)))
    if x != x_before or list(subset) != subset_before or [list(c) for c in storage.get_data()] != data_before:
        probs.append(("replay.impute.no_mutation", "instance, subset or storage was modified"))
    return probs
