"""Scenario runner for the incremental explainers (IncrementalSage, IncrementalPFI).

Drives the real classes with exact (Fraction) or float inputs behind callback proxies and
the RNG tape, and records one trace per scenario in the vocabulary of
spec/Trace_IncExplainer.tla (DESIGN.md Appendix A).  All numbers are reduced mod P.
"""
import copy
import sys
import random
import warnings
from fractions import Fraction as F

import numpy as np

from harness.fieldp import red, P, Unrepresentable
from harness.proxies import Tape, Boom, TapeMismatch, BOOMS, carries_boom

warnings.filterwarnings("ignore")

NAME_SCHEMES = {
    "str": lambda d: ["f%d" % i for i in range(1, d + 1)],
    "int": lambda d: [10 * i for i in range(1, d + 1)],
    "float": lambda d: [i + 0.5 for i in range(1, d + 1)],
    "mixed": lambda d: (["a", 1, 2.5, "b", 7, 0.25])[:d],
    "mixed2": lambda d: ([0, 1.5, "x", 3, "y"])[:d],
    "idx": lambda d: list(range(1, d + 1)),
}


class NotObservable(Exception):
    """an attribute named in the property anchors does not exist on this tree: the abstract state cannot be
    projected; the scenario is counted as not observed (never a violation)"""


def find_part(obj, base_cls, preferred):
    """the storage / imputer of an explainer: by its anchored attribute name, else the unique attribute of that type"""
    if hasattr(obj, preferred):
        return getattr(obj, preferred)
    cands = [v for v in vars(obj).values() if isinstance(v, base_cls)]
    if len(cands) == 1:
        return cands[0]
    raise NotObservable("no attribute %s and no unique %s among the attributes" % (preferred, base_cls.__name__))


class ConstructError(Exception):
    """the explainer (or its parts) could not be constructed for a scenario"""


class Scenario:
    """Configuration of one run (everything a replay needs)."""

    def __init__(self, **kw):
        self.cls = kw.get("cls", "sage")
        self.d = kw.get("d", 2)
        self.names = kw.get("names", "str")
        self.n_inner = kw.get("n_inner", 1)
        self.dynamic = kw.get("dynamic", True)
        self.alpha = kw.get("alpha", F(1, 2))            # None -> constructor default
        self.pass_dynamic = kw.get("pass_dynamic", True)  # False -> do not pass dynamic_setting
        self.bigger = kw.get("bigger", False)
        self.storage = kw.get("storage", ("interval", 2))  # (kind, size[, p]) or None (default)
        self.store_targets = kw.get("store_targets", False)
        self.imputer = kw.get("imputer", None)            # None | "joint" | "product" | "default" | "custom"
        self.nlab = kw.get("nlab", 1)
        self.model_seed = kw.get("model_seed", 0)
        self.ignore_feature = kw.get("ignore_feature", None)   # 1-based index the model ignores
        self.stream = kw.get("stream", [])                # list of (xvals list, y, n_override or None, upd bool)
        self.faults = kw.get("faults", {})                # call index (0-based) -> callback ordinal (1-based)
        # call index -> ordinal (1-based) of the invocation of any OTHER public method of the imputer / storage object the
        # explainer holds (get_data, and whatever hook a later version of the library calls on them): those are callbacks too
        self.aux_faults = kw.get("aux_faults", {})
        # sparse observations: calls explained with update_storage=False lack one of the explained features (the model reads
        # a missing feature as 0, river style); stored observations stay complete - the imputers sample every feature from them
        self.sparse = kw.get("sparse", False)
        self.numeric = kw.get("numeric", "fraction")      # "fraction" | "float"
        self.loss_offset = kw.get("loss_offset", 0)       # added to every loss value (C20 scenarios)
        self.seed = kw.get("seed", 0)
        self.tables = kw.get("tables", "random")          # "random" | "spec:scalar" | "spec:multi" (IncExplainer.tla)
        self.out_scale = kw.get("out_scale", 1)           # magnitude of the model outputs (exact factor)
        self.loss_scale = kw.get("loss_scale", 1)         # magnitude of the loss values (exact factor)
        # the model reads the instance dict by position (like a wrapper without feature names does): every input the
        # library builds for it must keep the key order of the explained instance
        self.positional = kw.get("positional", False)
        # keys of multi-label model outputs: "int" (0, 1, ..), "str" ("lab0", ..) or "mixed" (0, "lab1", 2.5, (3, 3))
        self.labels = kw.get("labels", "int")
        # explain_one(x_i=.., y_i=..) and an all-keyword constructor call instead of positional arguments
        self.keyword_calls = kw.get("keyword_calls", False)
        # the loss is a callable object with the attributes of a river metric (bigger_is_better = True): meaningless for a
        # plain callable, the loss is used as given (the direction is what loss_bigger_is_better says)
        self.loss_object = kw.get("loss_object", False)
        self.shuffle_keys = kw.get("shuffle_keys", False)  # the key order of the instance dicts changes from call to call
        self.extreme = kw.get("extreme", False)            # legal but extreme random outcomes (first / last row, ...)
        self.fault_type = kw.get("fault_type", 0)          # exception class of injected faults (index into proxies.BOOMS)
        self.wrap = kw.get("wrap", None)                  # None | "sklearn": the model function is a library Wrapper
        self.prefill = kw.get("prefill", 0)               # observations already in a user-supplied storage (warm start)
        self.default_value = kw.get("default_value", None)   # DefaultImputer: one value for all features (None: (i+1)/2)
        self.companion = kw.get("companion", False)       # a second live explainer (own parts) is driven in between

    def to_json(self):
        d = dict(self.__dict__)
        d["alpha"] = None if self.alpha is None else str(self.alpha)
        d["out_scale"] = str(self.out_scale)
        d["loss_scale"] = str(self.loss_scale)
        d["loss_offset"] = str(self.loss_offset)
        d["stream"] = [[[str(v) for v in xs], y, n, u] for (xs, y, n, u) in self.stream]
        d["faults"] = {str(k): v for k, v in self.faults.items()}
        d["aux_faults"] = {str(k): v for k, v in self.aux_faults.items()}
        return d

    @staticmethod
    def from_json(d):
        d = dict(d)
        d["alpha"] = None if d["alpha"] is None else F(d["alpha"])
        d["out_scale"] = F(d.get("out_scale", 1))
        d["loss_scale"] = F(d.get("loss_scale", 1))
        d["loss_offset"] = F(str(d.get("loss_offset", 0)))
        d["stream"] = [([F(v) for v in xs], y, n, u) for (xs, y, n, u) in d["stream"]]
        d["faults"] = {int(k): v for k, v in d["faults"].items()}
        d["aux_faults"] = {int(k): v for k, v in d.get("aux_faults", {}).items()}
        if d.get("storage") is not None:
            d["storage"] = tuple(d["storage"])
        return Scenario(**d)

    def key(self):
        return "%s d=%d names=%s n=%d dyn=%s alpha=%s bigger=%s storage=%s imputer=%s nlab=%d num=%s scale=%s/%s seed=%d" % (
            self.cls, self.d, self.names, self.n_inner, self.dynamic, self.alpha, self.bigger, self.storage,
            self.imputer, self.nlab, self.numeric, self.out_scale, self.loss_scale, self.seed)


def make_storage(spec, store_targets):
    from ixai.storage import (BatchStorage, IntervalStorage, SequenceStorage, UniformReservoirStorage,
                              GeometricReservoirStorage)
    if spec is None:
        return None
    kind = spec[0]
    if kind == "batch":
        return BatchStorage(store_targets=store_targets)
    if kind == "interval":
        return IntervalStorage(size=spec[1], store_targets=store_targets)
    if kind == "sequence":
        return SequenceStorage(store_targets=store_targets)
    if kind == "uniform":
        return UniformReservoirStorage(size=spec[1], store_targets=store_targets)
    if kind == "geometric":
        p = spec[2] if len(spec) > 2 else None
        return GeometricReservoirStorage(size=spec[1], store_targets=store_targets,
                                         constant_probability=p)
    raise ValueError(kind)


class Recorder:
    """Collects the ordered sub-events of one explain_one call."""

    def __init__(self):
        self.reset()
        self.total_callbacks = 0

    def reset(self):
        self.order = []
        self.models = []
        self.losses = []
        self.imputes = []
        self.stores = []
        self.draws = []
        self.cb = 0                 # callback ordinal inside the call (model, loss, impute, store)
        self.fault_at = None
        self.aux = 0                # ordinal of invocations of other public methods of the imputer / storage objects
        self.aux_fault_at = None
        self.fault_type = getattr(self, "fault_type", 0)
        self.in_imp = 0
        self.imp_done = 0
        self.raised_at = None

    def aux_callback(self, kind):
        self.aux += 1
        if self.aux_fault_at is not None and self.aux == self.aux_fault_at:
            self.raised_at = (kind, 0)
            raise BOOMS[self.fault_type % len(BOOMS)]("injected fault in %s (auxiliary invocation #%d)" % (kind, self.aux))

    def callback(self, kind):
        self.cb += 1
        self.total_callbacks += 1
        if self.fault_at is not None and self.cb == self.fault_at:
            self.raised_at = (kind, self.cb)
            raise BOOMS[self.fault_type % len(BOOMS)]("injected fault in %s callback #%d" % (kind, self.cb))


def build(sc):
    """Construct model / loss / storage / imputer / explainer for a scenario.  Returns a dict."""
    from ixai.explainer import IncrementalSage, IncrementalPFI
    from ixai.imputer import MarginalImputer, DefaultImputer, BaseImputer
    rng = random.Random(sc.model_seed * 7919 + 13)
    d, nlab = sc.d, sc.nlab
    names = NAME_SCHEMES[sc.names](d)
    # "np": every number the library receives is a NumPy scalar (np.float64 values, np.int64 counts), alpha = 1 the int 1
    conv = (lambda q: q) if sc.numeric == "fraction" else np.float64 if sc.numeric == "np" else float
    W = [[F(rng.randrange(-4, 5)) for _ in range(d)] for _ in range(max(nlab, 1))]
    for row in W:
        if all(w == 0 for w in row):
            row[0] = F(2)
    C = [F(rng.randrange(-2, 3)) for _ in range(max(nlab, 1))]
    if sc.ignore_feature:
        for row in W:
            row[sc.ignore_feature - 1] = F(0)
    rec = Recorder()
    LAB = {"int": lambda l: l, "str": lambda l: "lab%d" % l,
           "mixed": lambda l: [0, "lab1", 2.5, (3, 3), "lab4"][l % 5]}[sc.labels if not sc.tables.startswith("spec:") else "int"]
    lindex = {LAB(l): l for l in range(max(nlab, 1))}
    labels = {}          # label -> small int id used in the trace

    def lab_id(k):
        if k not in labels:
            labels[k] = len(labels) + 1
        return labels[k]

    def xvec(x):
        if sc.sparse:
            return [x.get(nm, conv(F(0))) for nm in names]
        return [x[nm] for nm in names]

    def raw_model(x):
        v = list(x.values()) if sc.positional else xvec(x)
        inter = v[0] * v[-1] if not sc.ignore_feature or sc.ignore_feature not in (1, d) else 0
        osc = F(sc.out_scale)
        if nlab == 1:
            return {"output": conv(osc * (sum(W[0][i] * v[i] for i in range(d)) + C[0] * inter + F(1, 3)))}
        out = {}
        for l in range(nlab):
            if l == nlab - 1 and nlab >= 2 and F(v[0]) < 0 and sc.ignore_feature != 1:
                continue       # the last label only appears for some inputs: label sets grow over time
            s = sum(W[l][i] * v[i] for i in range(d)) + C[l] * inter
            out[LAB(l)] = conv(osc * (s * s + l + F(1, 2)))
        return out

    if sc.tables.startswith("spec:"):
        def raw_model(x):      # Model(x) of spec/IncExplainer.tla
            v = [None] + xvec(x)
            if sc.tables == "spec:scalar":
                return {"output": conv(sum(((i % 2) + 1) * v[i] for i in range(1, d + 1)) - 1 + v[1] * v[d])}
            out = {1: conv(sum(i * v[i] for i in range(1, d + 1)) + 1)}
            if v[1] > 0:
                out[2] = conv(v[1] * v[1] + v[d])
            return out

    def model(x):
        if not isinstance(x, dict):
            return [model(xi) for xi in x]
        rec.callback("model")
        out = raw_model(x)
        rec.order.append("m")
        rec.models.append({"x": [red(val) for val in xvec(x)], "out": sorted([[lab_id(k), red(val)] for k, val in out.items()]),
                           "imp": rec.in_imp, "extra_keys": sorted(map(str, set(x) - set(names)))})
        return out

    def loss(y_true, y_pred):
        rec.callback("loss")
        if sc.tables.startswith("spec:"):      # Loss(y, p) of spec/IncExplainer.tla
            if sc.tables == "spec:scalar":
                val = sum((F(y_true) * ((0 if k == "output" else k) + 1) - F(pv)) ** 2 for k, pv in y_pred.items()) - F(y_true) \
                    + sc.loss_offset
            else:
                val = sum(F((k + 1) * (2 - y_true)) * F(pv) for k, pv in y_pred.items()) - F(y_true * len(y_pred))
        else:
            val = F(sc.loss_scale) * (sum((F(y_true) * (2 if k == "output" else lindex[k] + 1) - F(pv)) ** 2 for k, pv in y_pred.items())
                                      - F(y_true, 7) + len(y_pred)) + sc.loss_offset
        val = conv(val)
        rec.order.append("l")
        rec.losses.append({"y": y_true, "pred": sorted([[lab_id(k), red(pv)] for k, pv in y_pred.items()]),
                           "val": red(val), "ai": rec.imp_done, "raw": val,
                           "predtypes": sorted({type(pv).__name__ for pv in y_pred.values()})})
        return val

    if sc.loss_object:
        class LossObject:
            bigger_is_better = True
            requires_labels = True

            def __init__(self, fn):
                self.fn = fn

            def __call__(self, y_true, y_pred):
                return self.fn(y_true, y_pred)
        loss = LossObject(loss)
    plain_model = model
    if sc.wrap == "sklearn":
        # the model function handed to the library is a SklearnWrapper around an array-valued prediction function
        from ixai.utils.wrappers import SklearnWrapper

        def predict(arr):
            a = np.asarray(arr, dtype=float)
            return np.array([plain_model({nm: float(a[r, i]) for i, nm in enumerate(names)})["output"] for r in range(a.shape[0])])
        model = SklearnWrapper(predict, feature_names=list(names))
    storage = make_storage(sc.storage, sc.store_targets)
    if storage is not None:
        for k in range(sc.prefill):       # a storage that was filled before the explainer is built (shared / warm-started)
            storage.update({nm: conv(F(k + i, 2)) for i, nm in enumerate(names)}, k % 3)
    imputer = None
    if sc.imputer in ("joint", "product"):
        imputer = MarginalImputer(model, sc.imputer, storage)
    elif sc.imputer == "default":
        imputer = DefaultImputer(model, {nm: conv(F(i + 1, 2) if sc.default_value is None else F(sc.default_value))
                                         for i, nm in enumerate(names)})
    elif sc.imputer == "custom":
        class Custom(BaseImputer):
            """user-supplied imputer: draws rows through the global generator like the joint strategy"""
            def __init__(self, mf, st):
                super().__init__(model_function=mf)
                self.st = st

            def impute(self, feature_subset, x_i, n_samples=None):
                rows, _ = self.st.get_data()
                out = []
                for _ in range(n_samples):
                    r = rows[random.randrange(len(rows))]
                    out.append(self.model_function({**x_i, **{f: r[f] for f in feature_subset}}))
                return out
        imputer = Custom(model, storage)
    kw = {}
    if storage is not None:
        kw["storage"] = storage
    if imputer is not None:
        kw["imputer"] = imputer
    if sc.alpha is not None:
        kw["smoothing_alpha"] = 1 if (sc.numeric == "np" and sc.alpha == 1) else conv(sc.alpha)
    if sc.pass_dynamic:
        kw["dynamic_setting"] = sc.dynamic
    if sc.n_inner != 1:
        kw["n_inner_samples"] = np.int64(sc.n_inner) if sc.numeric == "np" else sc.n_inner
    head = dict(model_function=model, loss_function=loss, feature_names=names) if sc.keyword_calls else None
    if sc.cls == "sage":
        if sc.bigger:
            kw["loss_bigger_is_better"] = True
        ex = IncrementalSage(**head, **kw) if head else IncrementalSage(model, loss, names, **kw)
    else:
        ex = IncrementalPFI(**head, **kw) if head else IncrementalPFI(model, loss, names, **kw)
    return dict(ex=ex, rec=rec, names=names, labels=labels, lab_id=lab_id, model=model, loss=loss, conv=conv)


def _trk(t):
    return [int(t.N), red(t.tracked_value), red(getattr(t, "sum_squares", 0))]


class Projection:
    """Reads the abstract state of an explainer (DESIGN.md §3.6): trackers named in the property anchors."""

    def __init__(self, env):
        self.env = env

    def name_index(self, key):
        for i, nm in enumerate(self.env["names"]):
            try:
                if key == nm and hash(key) == hash(nm):
                    return i + 1
            except Exception:
                pass
        # NumPy may have stringified the name (np.random.permutation over mixed names)
        return None

    def mv(self, m, by_name):
        out = []
        for k, t in m.tracked_value.items():
            if by_name:
                idx = self.name_index(k)
                if idx is None:
                    idx = 100 + len(out)      # a key that is none of the configured names
            else:
                idx = self.env["lab_id"](k)
            out.append([idx, _trk(t)])
        return sorted(out)

    def state(self):
        try:
            return self._state()
        except AttributeError as e:
            raise NotObservable(str(e)) from e

    def raw(self):
        try:
            return self._raw()
        except AttributeError as e:
            raise NotObservable(str(e)) from e

    def _state(self):
        ex = self.env["ex"]
        st = {"seen": int(ex.seen_samples),
              "imp": self.mv(ex._importance_trackers, True), "impn": int(ex._importance_trackers.N),
              "var": self.mv(ex._variance_trackers, True), "varn": int(ex._variance_trackers.N),
              "ml": _trk(ex._marginal_loss_tracker), "mo": _trk(ex._model_loss_tracker),
              "mp": self.mv(ex._marginal_prediction_tracker, False), "mpn": int(ex._marginal_prediction_tracker.N)}
        mp = getattr(ex, "marginal_prediction", None)
        st["margpred"] = sorted([[self.env["lab_id"](k), red(v)] for k, v in mp.items()]) if isinstance(mp, dict) else []
        return st

    def _raw(self):
        """exact python values, for the float twin comparison"""
        ex = self.env["ex"]
        return {"imp": dict(ex.importance_values), "var": dict(ex.variances),
                "ml": ex._marginal_loss_tracker.get(), "mo": ex._model_loss_tracker.get(),
                "mp": ex._marginal_prediction_tracker.get()}

    def storage_rows(self):
        ex = self.env["ex"]
        try:
            from ixai.storage.base import BaseStorage
            xs, ys = find_part(ex, BaseStorage, "_storage").get_data()
            return list(xs), list(ys)
        except Exception:
            return None, None


def run_scenario(sc, tape_mode="log", script=None, keep_raw=False, provider=None):
    """Execute a scenario; returns (trace dict, extras)."""
    random.seed(sc.seed)
    np.random.seed(sc.seed % (2 ** 32))
    try:
        env = build(sc)
    except TapeMismatch:
        raise
    except Exception as e:
        raise ConstructError("%s: %s" % (type(e).__name__, str(e)[:200])) from e
    ex, rec, names = env["ex"], env["rec"], env["names"]
    conv = env["conv"]
    proj = Projection(env)
    env2 = None
    if sc.companion:
        try:
            env2 = build(sc)       # same configuration, its own model / loss / storage / imputer objects
        except Exception:
            env2 = None
    arrivals = {}            # id(x dict) -> arrival index (1-based)
    keep = []                # keep the dicts alive so ids stay unique

    # instance-level wrappers around imputer.impute and storage.update (harness-side instrumentation)
    from ixai.imputer.base import BaseImputer
    from ixai.storage.base import BaseStorage
    imp_obj = find_part(ex, BaseImputer, "_imputer")
    if imp_obj is None:
        # the explainer holds no imputer at all: nothing to instrument (its calls will fail inside the library and be
        # recorded as calls that raised)
        class _NoImputer:
            def impute(self, *a, **k):
                raise AttributeError("the explainer has no imputer")
        imp_obj = _NoImputer()
    orig_impute = imp_obj.impute

    def impute(*a, **k):
        feature_subset = k.get("feature_subset", a[0] if a else None)
        n_samples = k.get("n_samples", a[2] if len(a) > 2 else None)
        x_arg = k.get("x_i", a[1] if len(a) > 1 else None)
        rec.callback("impute")
        if provider is not None:
            rws, _ = proj.storage_rows()
            tape_ref[0].script.extend(provider.on_impute(len(calls), len(rec.imputes), feature_subset, n_samples,
                                                         len(rws or [])))
        subset_list = list(feature_subset)
        idxs = [proj.name_index(f) or 0 for f in subset_list]
        e = {"subset": sorted(idxs), "n": n_samples if n_samples is not None else -1, "m0": len(rec.models),
             "subset_type": type(feature_subset).__name__, "x_is_arg": x_arg is cur["x"]}
        rec.order.append("i")
        rec.imputes.append(e)
        rec.in_imp = len(rec.imputes)
        snap_subset = copy.copy(feature_subset)
        try:
            res = orig_impute(*a, **k)
        finally:
            rec.in_imp = 0
        rec.imp_done = len(rec.imputes)
        e["m1"] = len(rec.models)
        e["count"] = len(res)
        e["subset_unmodified"] = (snap_subset == feature_subset)
        return res
    imp_obj.impute = impute

    st_obj = find_part(ex, BaseStorage, "_storage")
    if st_obj is None:
        # every explainer owns a storage (the supplied one or a default): one without is not a usable explainer
        raise ConstructError("the constructed explainer holds no storage object")
    orig_update = st_obj.update

    def update(*a, **k):
        x_arg = k.get("x", a[0] if a else None)
        y_arg = k.get("y", a[1] if len(a) > 1 else None)
        rec.callback("store")
        if provider is not None:
            rws, _ = proj.storage_rows()
            tape_ref[0].script.extend(provider.on_store(len(calls), len(rws or [])))
        rec.order.append("s")
        rec.stores.append({"pos": len(rec.order), "x_is_arg": x_arg is cur["x"] or x_arg == cur["x"],
                           "y_is_arg": (y_arg == cur["y"]) if cur["y"] is not None else True,
                           "seen_at": int(ex.seen_samples)})
        return orig_update(*a, **k)
    st_obj.update = update

    # every other public method of the two user-suppliable objects is a fault point as well (not counted as a callback
    # of the specification: a fault there is judged by the pre / post clauses of a call that raised)
    def _aux(obj, label, skip):
        import inspect
        for nm in dir(obj):
            if nm.startswith("_") or nm == skip:
                continue
            try:
                meth = getattr(obj, nm)
            except Exception:
                continue
            if not inspect.ismethod(meth):
                continue

            def wrapper(*a, __m=meth, __k="%s.%s" % (label, nm), **k):
                # only invocations made by library code count (the harness' own projections read the storage too)
                if "/ixai/" in sys._getframe(1).f_code.co_filename.replace("\\", "/"):
                    rec.aux_callback(__k)
                return __m(*a, **k)
            try:
                setattr(obj, nm, wrapper)
            except Exception:
                pass
    _aux(imp_obj, "imputer", "impute")
    _aux(st_obj, "storage", "update")

    cur = {"x": None, "y": None}
    calls = []
    max_loss = [0.0]
    raws = []
    rows_log = []
    tape_log = []

    def sink(ev):
        rec.order.append("d")
        ev = dict(ev)
        ev["imp"] = rec.in_imp          # inside which imputer call (0 = outside) the draw happened
        rec.draws.append(ev)

    trace = {"cls": sc.cls, "d": sc.d, "kind": "es" if sc.dynamic else "welford",
             "alpha": red(sc.alpha if sc.alpha is not None else F(1, 1000)),
             "defimp": sc.imputer in (None, "joint", "product", "custom"),
             "onemodel": sc.imputer == "default",
             "strategy": sc.imputer if sc.imputer in ("joint", "product") else ("joint" if sc.imputer in (None, "custom") else "none"),
             "defaults": [red(F(i + 1, 2) if sc.default_value is None else F(sc.default_value)) for i in range(sc.d)],
             "ignored": int(sc.ignore_feature or 0),
             "key": sc.key()}
    random.seed(sc.seed)
    np.random.seed(sc.seed % (2 ** 32))
    tape_ref = [None]
    if sc.extreme and tape_mode == "log":
        tape_cm = Tape(mode="extreme", sink=sink, rng=random.Random(sc.seed + 5))
    else:
        tape_cm = Tape(mode=tape_mode, script=script, sink=sink)
    with tape_cm as tape:
        tape_ref[0] = tape
        for ci, (xs, y, n_over, upd) in enumerate(sc.stream):
            if provider is not None:
                tape.script.extend(provider.on_begin(ci, int(ex.seen_samples)))
            if sc.sparse and not upd and n_over != "manual" and ci >= 1 and sc.d >= 2 and not sc.positional:
                drop = (sc.seed + ci) % sc.d
                xs = [F(0) if j == drop else v for j, v in enumerate(xs)]
                pairs = [(nm, v) for j, (nm, v) in enumerate(zip(names, xs)) if j != drop]
            else:
                pairs = list(zip(names, xs))
            if sc.shuffle_keys:
                random.Random(sc.seed * 31 + ci).shuffle(pairs)
            x = {nm: conv(v) for nm, v in pairs}
            x_copy = dict(x)
            names_copy = list(names)
            keep.append(x)
            arrivals[id(x)] = ci + 1
            cur["x"], cur["y"] = x, y
            rec.fault_type = sc.fault_type + ci
            rec.reset()
            rec.fault_at = sc.faults.get(ci)
            rec.aux_fault_at = sc.aux_faults.get(ci)
            pre = proj.state()
            rows_before, _ = proj.storage_rows()
            self_in_bg = rows_before is not None and any(r is x for r in rows_before)
            kw = {}
            if n_over is not None and n_over != "manual":
                kw["n_inner_samples"] = np.int32(n_over) if sc.numeric == "np" else n_over
            if not upd:
                kw["update_storage"] = False
            outcome, exc_name, ret = "ret", "", None
            manual = n_over == "manual"
            if manual:
                kw = {}
            try:
                if manual:
                    ex.update_storage(x, y)        # the public manual storage update, between explain_one calls
                    outcome = "manual"
                else:
                    ret = ex.explain_one(x_i=x, y_i=y, **kw) if sc.keyword_calls else ex.explain_one(x, y, **kw)
            except Boom:
                outcome, exc_name = "exc", "Boom"
            except (TapeMismatch, Unrepresentable):
                # (Unrepresentable: a recording callback of the harness met a number whose denominator is divisible by P -
                # the scenario cannot be encoded for TLC and is skipped by the caller; it is not an error of the library)
                raise
            except Exception as e:      # the library (or a callback precondition) raised
                if carries_boom(e):
                    outcome, exc_name = "exc", "Boom"
                else:
                    outcome, exc_name = "err", type(e).__name__ + ": " + str(e)[:200]
            post = proj.state()
            rows_after, ys_after = proj.storage_rows()
            n_eff = n_over if n_over not in (None, "manual") else sc.n_inner
            call = {"x": [red(v) for v in xs], "y": y, "n": n_eff, "upd": bool(upd), "pre": pre, "post": post,
                    "outcome": outcome, "exc": exc_name, "fault": rec.raised_at[1] if rec.raised_at else 0,
                    "models": [dict(m) for m in rec.models],
                    "losses": [{k: v for k, v in l.items() if k not in ("raw", "predtypes")} for l in rec.losses],
                    "imputes": [dict(i) for i in rec.imputes], "order": list(rec.order),
                    "perms": [[(proj_perm_index(names, d["v"])) for d in rec.draws if d["kind"] == "perm"]][0],
                    "draws": [[d["kind"], d["range"] if d["range"] is not None else 0,
                               d["v"] if isinstance(d["v"], int) else 0] for d in rec.draws if d["kind"] in ("uniform",) and d["imp"] > 0],
                    "stores": [dict(s) for s in rec.stores],
                    "rows": [[red(r[nm]) for nm in names] for r in (rows_before or [])],
                    "nrows": len(rows_before or []),
                    "self_in_bg": bool(self_in_bg),
                    "args_unmod": (x == x_copy and list(ex.feature_names) == names_copy),
                    "ret_is_prop": (outcome != "ret") or _same_dict(ret, ex.importance_values),
                    "nrows_after": len(rows_after) if rows_after is not None else -1,
                    "ret_keys_ok": (outcome != "ret") or _keys_match(ret, names, pre["seen"] >= 1),
                    "stored_after": _stored_after(rows_after, ys_after, x, y, sc.store_targets),
                    "normok": _normok(ex),
                    "offset_ok": _offset_ok(ex, sc),
                    }
            call["unconsumed"] = 0
            if tape_mode == "script" and tape.script:
                call["unconsumed"] = len(tape.script)     # scripted draws the code never asked for
                del tape.script[:]
            calls.append(call)
            if outcome == "err" and pre["seen"] >= 1 and call["nrows"] == 0:
                call["outcome"] = "exc"      # the imputer found the storage empty: a naturally occurring fault
                call["exc"] = "EmptyStorage " + exc_name
            for l_ in rec.losses:
                try:
                    max_loss[0] = max(max_loss[0], abs(float(l_["raw"])))
                except Exception:
                    pass
            if keep_raw:
                raws.append(proj.raw())
                rows_log.append((list(rows_after) if rows_after is not None else None, ys_after))
            if env2 is not None:
                # objects must not share state: the companion explains other data between the calls
                try:
                    env2["ex"].explain_one({nm: conv(v + 7) for nm, v in zip(names, xs)}, (y + 1) % 3)
                except Exception:
                    pass
            if provider is not None and not provider.after_call(ci, call):
                break
        tape_log = list(tape.log)
    trace["calls"] = calls
    return trace, {"raws": raws, "env": env, "tape": tape_log, "rows_after": rows_log, "max_loss": max_loss[0]}


def _offset_ok(ex, sc):
    """marginal_loss / model_loss report the tracker value plus one when loss_bigger_is_better is set
    (both, so that the offset cancels in explained_loss)"""
    if sc.cls != "sage":
        return True
    try:
        off = 1.0 if sc.bigger else 0.0
        ml, mo = float(ex._marginal_loss_tracker.get()), float(ex._model_loss_tracker.get())
        tol = 1e-9 * (1 + abs(ml) + abs(mo))
        return (abs(float(ex.marginal_loss) - (ml + off)) <= tol and abs(float(ex.model_loss) - (mo + off)) <= tol
                and abs(float(ex.explained_loss) - (ml - mo)) <= 2 * tol)
    except Exception:
        return False


def _normok(ex):
    """does the zero test of the normalisation agree between exact arithmetic and GF(p)?"""
    try:
        vals = list(ex._marginal_prediction_tracker.get().values())
        return (sum(vals) == 0) == (sum(red(v) for v in vals) % P == 0)
    except Exception:
        return False


def proj_perm_index(names, idx):
    return [int(i) + 1 for i in idx]


def _same_dict(a, b):
    try:
        return dict(a) == dict(b)
    except Exception:
        return False


def _keys_match(ret, names, explained):
    """importance values keyed by exactly the given names (bijection by ==/hash), once something was explained"""
    try:
        keys = list(ret.keys())
    except Exception:
        return False
    if not explained and not keys:
        return True
    if len(keys) != len(names):
        return False
    for nm in names:
        if nm not in ret:
            return False
    return True


def _stored_after(rows, ys, x, y, store_targets):
    if rows is None:
        return {"has": False, "n": 0}
    has = any(r is x for r in rows) or any(r == x for r in rows)
    return {"has": bool(has), "n": len(rows), "ny": len(ys) if ys is not None else 0}


def random_scenario(rng, cls=None, quickness=1, **force):
    """One random configuration + stream from the configuration product of C01-C03 / C15."""
    cls = cls or rng.choice(["sage", "pfi"])
    d = rng.choice([1, 2, 2, 3, 3, 4])
    names = rng.choice(["str", "str", "int", "float"])
    n_inner = rng.choice([1, 1, 2, 3])
    dynamic = rng.random() < 0.5
    alpha = rng.choice([F(1, 2), F(1), F(1, 1000), F(rng.randrange(1, 100), 100), F(rng.randrange(1, 10 ** 6), 10 ** 6)])
    storage = rng.choice([None, ("batch",), ("interval", rng.choice([1, 2, 5])), ("sequence",),
                          ("uniform", rng.choice([1, 2, 4])), ("geometric", rng.choice([1, 2, 4])),
                          ("geometric", 3, 0.5), ("geometric", 2, 1.0)])
    imputer = rng.choice([None, None, "joint", "product", "default", "custom"])
    if storage is None and imputer in ("joint", "product", "custom"):
        storage = ("geometric", 3)
    nlab = rng.choice([1, 1, 2, 3])
    # mostly short streams, some long ones (late manifestations: wrapped storages, counters crossing thresholds)
    length = rng.choice([3, 6, 12, 12, 50]) if quickness else rng.choice([6, 20, 60, 150])
    if length >= 50:
        d = min(d, 3)
        n_inner = min(n_inner, 2)
    stream = []
    for i in range(length):
        xs = [F(rng.randrange(-3, 4), rng.choice([1, 1, 2])) for _ in range(d)]
        y = rng.randrange(0, 3)
        n_over = rng.choice([None, None, None, 1, 2])
        if i > 0 and rng.random() < 0.07:
            n_over = "manual"
        upd = rng.random() < 0.9 or i == 0
        stream.append((xs, y, n_over, upd))
    kw = dict(cls=cls, d=d, names=names, n_inner=n_inner, dynamic=dynamic, alpha=alpha, companion=rng.random() < 0.3,
              prefill=(rng.choice([0, 0, 0, 2, 5]) if storage is not None else 0),
              loss_object=rng.random() < 0.15, positional=rng.random() < 0.15, labels=rng.choice(["int", "int", "str", "mixed"]), keyword_calls=rng.random() < 0.25, shuffle_keys=rng.random() < 0.3, extreme=rng.random() < 0.2, fault_type=rng.randrange(len(BOOMS)),
              out_scale=rng.choice([1, 1, 1, F(1, 10 ** 10), F(1, 10 ** 6), 10 ** 7]),
              loss_scale=rng.choice([1, 1, 1, F(1, 10 ** 9), 10 ** 8]),
              bigger=(cls == "sage" and rng.random() < 0.3), storage=storage,
              store_targets=rng.random() < 0.5, imputer=imputer, nlab=nlab, model_seed=rng.randrange(10 ** 6),
              stream=stream, seed=rng.randrange(2 ** 31))
    if rng.random() < 0.2 and d >= 2:
        # sparse observations need calls that do not store them: a third of the later calls
        kw["sparse"] = True
        kw["stream"] = [(xs, y, n, (u and rng.random() < 0.6) or i == 0) for i, (xs, y, n, u) in enumerate(stream)]
    # the sign of the losses: a share of the scenarios has negative (and large negative) loss values
    kw["loss_offset"] = rng.choice([0, 0, 0, -50, -10 ** 4, 7]) * F(kw["loss_scale"])
    kw.update(force)
    if kw.get("positional"):
        kw["shuffle_keys"] = True
    return Scenario(**kw)
