"""Runner for Apalache (symbolic model checker): inductive invariants for unbounded parameters."""
import os
import shutil
import subprocess
import time
import uuid

from harness import tlc


class ApaResult:
    def __init__(self, ok, violated, wall, cmd, stdout):
        self.ok, self.violated, self.wall, self.cmd, self.stdout = ok, violated, wall, cmd, stdout


def check(module, cinit, init, inv, length, timeout=900):
    """apalache-mc check --cinit --init --inv --length.  Returns ApaResult; raises TLCError when the tool itself fails."""
    out = os.path.join(tlc.WORK, "apalache", uuid.uuid4().hex[:8])
    os.makedirs(out, exist_ok=True)
    cmd = ["apalache-mc", "check", "--cinit=" + cinit, "--init=" + init, "--inv=" + inv, "--length=%d" % length,
           "--out-dir=" + out, module + ".tla"]
    t0 = time.time()
    try:
        # (the parser's temporary module copies go into the run's own output directory, which is removed below)
        p = subprocess.run(cmd, cwd=tlc.SPEC, capture_output=True, text=True, timeout=timeout,
                           env=dict(os.environ, JVM_ARGS=(os.environ.get("JVM_ARGS", "") + " -Djava.io.tmpdir=" + out).strip()))
    except subprocess.TimeoutExpired:
        shutil.rmtree(out, ignore_errors=True)
        raise tlc.TLCError("apalache timed out: %s" % " ".join(cmd))
    shutil.rmtree(out, ignore_errors=True)
    so = p.stdout + p.stderr
    if "EXITCODE: OK" in so:
        return ApaResult(True, None, time.time() - t0, " ".join(cmd), so)
    if "EXITCODE: ERROR (12)" in so:          # a counterexample to the invariant
        return ApaResult(False, inv, time.time() - t0, " ".join(cmd), so)
    raise tlc.TLCError("apalache failed (%s):\n%s" % (" ".join(cmd), so[-2000:]))


def inductive(ctx, module, cinit, indinit, indinv, implied, label, negative_cinit=None):
    """Init => IndInv, IndInv /\\ Next => IndInv', IndInv => implied; optional negative control whose step must fail."""
    steps = [("Init", indinv, 0, "Init => %s" % indinv), (indinit, indinv, 1, "%s /\\ Next => %s'" % (indinv, indinv)),
             (indinit, implied, 0, "%s => %s" % (indinv, implied))]
    wall = 0.0
    for init, inv, length, what in steps:
        r = check(module, cinit, init, inv, length)
        wall += r.wall
        ctx.cmds.append(r.cmd)
        if not r.ok:
            raise tlc.TLCError("inductive invariant of %s (%s) fails at step [%s]:\n%s" % (module, label, what, r.stdout[-1500:]))
    if negative_cinit:
        r = check(module, negative_cinit, indinit, indinv, 1)
        wall += r.wall
        if r.ok:
            raise tlc.TLCError("negative control %s of %s: the inductive step was not refuted" % (negative_cinit, module))
    ctx.add_stage("Apalache inductive invariant %s (%s): %s" % (indinv, label, "; ".join(s[3] for s in steps)) +
                  ("; negative control %s refuted" % negative_cinit if negative_cinit else ""), "inductive_invariant",
                  wall_s=round(wall, 1), unbounded="stream length")
