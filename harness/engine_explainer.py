"""Direction B engine for the incremental explainers: run scenarios on the real classes,
validate the traces with TLC (spec/Trace_IncExplainer.tla), map failing clauses to properties."""
import copy
import json
import math
import random
from fractions import Fraction as F

from harness import tlc, tracecheck
from harness import gen_explainer as G
from harness.proxies import TapeMismatch
from harness.fieldp import Unrepresentable, NonFinite

# clause prefix -> property (DESIGN.md Appendix A)
CLAUSE_PROPERTY = [
    ("efficiency", "C01"),
    ("pfi.", "C02"),
    ("sage.", "C03"),
    ("draw.", "C04"),
    ("impute.", "C06"),
    ("contract.", "C15"),
    ("first.", "C15"),
    ("manual.", "C15"),
    ("fault.", "C17"),
]


def clause_property(clause):
    for pre, pid in CLAUSE_PROPERTY:
        if clause.startswith(pre):
            return pid
    return None


def run_scenarios(scenarios, construct_errors=None):
    """Execute scenarios; returns (traces, kept_scenarios).  Scenarios whose explainer cannot be
    constructed are reported through construct_errors (a list) and left out."""
    traces, kept = [], []
    not_observed = [0]
    run_scenarios.not_observed = not_observed
    run_scenarios.non_finite = []
    for sc in scenarios:
        try:
            tr, extra = G.run_scenario(sc)
        except G.ConstructError as e:
            if construct_errors is not None:
                construct_errors.append((sc, str(e)))
            continue
        except G.NotObservable:
            not_observed[0] += 1
            continue
        except NonFinite as e:
            run_scenarios.non_finite.append((sc, str(e)))
            continue
        except Unrepresentable:
            continue        # a logged number has a denominator divisible by P: the scenario is skipped, never failed
        traces.append(tr)
        kept.append(sc)
    return traces, kept


def validate(ctx, scenarios, wanted, label, workers=8, construct_violation=False):
    """wanted(clause, trace, call) -> bool: is this failing clause a violation of the calling property?"""
    cerr = []
    traces, kept = run_scenarios(scenarios, cerr)
    if cerr:
        if construct_violation:
            for sc, msg in cerr:
                ctx.violation("trace.contract.constructible", "%s alpha=%s pass_dynamic=%s" % (sc.cls, sc.alpha is not None, sc.pass_dynamic),
                              "constructor raised for scenario [%s]: %s" % (sc.key(), msg), {"scenario": sc.to_json()})
        else:
            ctx.skip("scenarios whose explainer could not be constructed (judged by C15)", len(cerr))
    for sc, msg in run_scenarios.non_finite:
        # exact inputs (Fractions) and yet the explainer's state or a value it handed to a callback is NaN / infinite
        if ctx.pid in ("C01", "C02", "C03", "C16", "C17"):
            ctx.violation("trace.state.non_finite", _config_key(sc), "scenario [%s]: the explainer produced the non-finite "
                          "value %s from exact inputs" % (sc.key(), msg), {"scenario": sc.to_json()})
        else:
            ctx.skip("scenarios with non-finite explainer state (judged by C01-C03, C17)")
    if run_scenarios.not_observed[0]:
        ctx.skip("scenarios whose abstract state could not be projected (anchored attributes missing)", run_scenarios.not_observed[0])
    if not traces:
        return traces, kept, []
    fails, res = tracecheck.validate("Trace_IncExplainer", traces, lambda t: len(t["calls"]),
                                     tag=ctx.pid.lower() + "tr", workers=workers)
    ncalls = sum(len(t["calls"]) for t in traces)
    nsub = sum(len(c["models"]) + len(c["losses"]) + len(c["imputes"]) + len(c["stores"]) for t in traces for c in t["calls"])
    ctx.add_tlc("trace validation Trace_IncExplainer: " + label, res, kind="trace_validation",
                traces=len(traces), calls=ncalls, callback_events=nsub)
    ctx.traces += len(traces)
    ctx.evaluations += ncalls
    skips = [p for p in res.tagged("SKIP")]
    if skips:
        ctx.skip("value clauses skipped (callback shape not parseable)", len(skips))
    for t, sc in zip(traces, kept):
        if any(c["pre"]["seen"] >= 1 and c["outcome"] == "ret" for c in t["calls"]):
            ctx.nontrivial((label, sc.key()))
    nviol = 0
    for f in fails:
        clause, tid, l = f[0], f[1], f[2]
        call = traces[tid]["calls"][l - 1]
        if not wanted(clause, traces[tid], call):
            continue
        nviol += 1
        sc = kept[tid]
        ctx.violation("trace." + clause, _config_key(sc),
                      "call %d of scenario [%s]: clause %s does not hold for the recorded transition" % (l, sc.key(), clause),
                      {"scenario": sc.to_json(), "call": l, "clause": clause})
    return traces, kept, fails


def _config_key(sc):
    return "%s names=%s dyn=%s storage=%s imputer=%s nlab=%d" % (
        sc.cls, sc.names, sc.dynamic, sc.storage[0] if sc.storage else None, sc.imputer, sc.nlab)


def unexpected_errors(ctx, traces, scenarios, clause="contract.no_exception"):
    """explain_one raised although no fault was injected and the storage was not empty."""
    for t, sc in zip(traces, scenarios):
        for i, c in enumerate(t["calls"]):
            if c["outcome"] == "err" and not (c["pre"]["seen"] >= 1 and c["nrows"] == 0):
                ctx.violation("trace." + clause, _config_key(sc),
                              "call %d of scenario [%s] raised %s" % (i + 1, sc.key(), c["exc"]),
                              {"scenario": sc.to_json(), "call": i + 1})
                break


def self_test(ctx, scenarios):
    """Binding demonstration: corrupt one logged field / drop one event of a call that validates cleanly;
    the corrupted trace must be rejected.  Calls that do not validate cleanly on the tree under test are
    not used (a deviation of the code is reported by the property clauses, not by the self-test)."""
    traces, kept = run_scenarios(scenarios[:6])
    if not traces:
        ctx.skip("self-test (no scenario could be constructed)")
        return
    fails0, res0 = tracecheck.validate("Trace_IncExplainer", traces, lambda t: len(t["calls"]),
                                       tag=ctx.pid.lower() + "self0", workers=2)
    dirty = {(f[1], f[2]) for f in fails0} | {(p[2] - 1, p[3]) for p in res0.tagged("SKIP")}
    bad = copy.deepcopy(traces)
    expect = set()
    kind = 0
    for tid, t in enumerate(bad):
        for l, c in enumerate(t["calls"]):
            if (tid, l + 1) in dirty:
                continue
            if c["pre"]["seen"] >= 1 and c["outcome"] == "ret" and c["post"]["imp"] and c["losses"] and c["models"]:
                if kind % 3 == 0:
                    c["post"]["imp"][0][1][1] = (c["post"]["imp"][0][1][1] + 1) % 46337
                    expect.add(("importance", tid, l + 1))
                elif kind % 3 == 1:
                    c["losses"][-1]["val"] = (c["losses"][-1]["val"] + 3) % 46337
                    expect.add(("importance", tid, l + 1))
                else:
                    c["models"].pop()
                    expect.add(("contract.model_calls", tid, l + 1))
                kind += 1
                break
    if not expect:
        ctx.skip("self-test (no cleanly validating explained call on this tree)")
        return
    fails, _ = tracecheck.validate("Trace_IncExplainer", bad, lambda t: len(t["calls"]),
                                   tag=ctx.pid.lower() + "self", workers=2)
    got = set()
    for f in fails:
        for (name, tid, l) in expect:
            if f[1] == tid and f[2] == l and name in f[0]:
                got.add((name, tid, l))
    if got != expect:
        raise tlc.TLCError("binding self-test failed: expected rejections %r, got %r" % (sorted(expect), sorted(fails)[:20]))
    ctx.add_stage("self-test: corrupted importance / loss value / dropped model event rejected", "selftest",
                  rejected=len(fails), corrupted_calls=len(expect))


def fault_free_batch(rng, n, quick, **force):
    return [G.random_scenario(rng, quickness=1 if quick else 0, **force) for _ in range(n)]


def callback_counts(sc):
    """number of callback invocations of every call of the fault-free run"""
    sc2 = copy.copy(sc)
    sc2.faults = {}
    try:
        tr, _ = G.run_scenario(sc2)
    except (G.NotObservable, G.ConstructError, Unrepresentable):
        return [], None
    return [len([o for o in c["order"] if o in ("m", "l", "i", "s")]) for c in tr["calls"]], tr


def twin_float(ctx, sc, clause_prefix, tol_scale=64.0):
    """Run the scenario in exact and in float arithmetic; returns list of problems (strings)."""
    sce = copy.copy(sc)
    sce.numeric = "fraction"
    scf = copy.copy(sc)
    scf.numeric = "np" if sc.seed % 3 == 0 else "float"
    try:
        _, xe = G.run_scenario(sce, keep_raw=True)
        _, xf = G.run_scenario(scf, keep_raw=True)
    except (G.NotObservable, G.ConstructError, Unrepresentable):
        ctx.skip("float twin runs whose state could not be projected / constructed")
        return [], {"raws": [], "env": None, "max_loss": 0.0}, {"raws": [], "env": None, "max_loss": 0.0}
    probs = []
    eps = 2.0 ** -52
    for i, (re_, rf) in enumerate(zip(xe["raws"], xf["raws"])):
        mag = 1.0
        for k in ("imp", "var"):
            for v in re_[k].values():
                mag = max(mag, abs(float(v)))
        # contributions are differences of loss values: the rounding error scales with the largest loss (squared for the
        # variances), not with the size of the resulting importance values
        ml_ = max(float(xe.get("max_loss", 0.0)), float(xf.get("max_loss", 0.0)))
        mag = max(mag, abs(float(re_["ml"])), abs(float(re_["mo"])), ml_)
        tol = tol_scale * eps * (i + 2) * mag * 1e4
        tol_var = tol_scale * eps * (i + 2) * max(mag, ml_ * ml_) * 1e4
        for k in ("imp", "var"):
            if set(map(str, re_[k])) != set(map(str, rf[k])):
                probs.append("call %d: %s keys differ" % (i + 1, k))
                continue
            fm = {str(a): b for a, b in rf[k].items()}
            for name, v in re_[k].items():
                fv = float(fm[str(name)])
                tk = tol_var if k == "var" else tol
                if not math.isfinite(fv) or abs(fv - float(v)) > tk:
                    probs.append("call %d: %s[%s] float %r vs exact %r (tol %g)" % (i + 1, k, name, fv, float(v), tk))
        for k in ("ml", "mo"):
            fv = float(rf[k])
            if not math.isfinite(fv) or abs(fv - float(re_[k])) > tol:
                probs.append("call %d: %s float %r vs exact %r" % (i + 1, k, fv, float(re_[k])))
    return probs, xe, xf
