"""GF(P) reduction of exact numbers logged from the implementation (see spec/FieldP.tla)."""
from fractions import Fraction

P = 46337


class Unrepresentable(Exception):
    pass


class NonFinite(Unrepresentable):
    """NaN or infinity where a real number is expected"""


def red(q):
    """Reduce an exact number (int / Fraction / integral or dyadic float) mod P."""
    if isinstance(q, bool):
        q = int(q)
    try:
        if q != q or q in (float("inf"), float("-inf")):
            raise NonFinite(repr(q))
    except NonFinite:
        raise
    except Exception:
        pass
    if isinstance(q, float):
        q = Fraction(q)          # exact: every finite double is a dyadic rational
    elif not isinstance(q, (int, Fraction)):
        try:
            import numpy as np
            if isinstance(q, np.integer):
                q = int(q)
            elif isinstance(q, np.floating):
                q = Fraction(float(q))
            else:
                q = Fraction(q)
        except Exception as e:
            raise Unrepresentable(repr(q)) from e
    q = Fraction(q)
    d = q.denominator % P
    if d == 0:
        raise Unrepresentable("denominator divisible by P: %r" % (q,))
    return (q.numerator % P) * pow(d, -1, P) % P


def qpair(p):
    """TLA <<n, d>> -> Fraction"""
    return Fraction(p[0], p[1])
