"""Harness-side environment model: RNG oracle tape, fault injection.

Nothing here touches /repo: the library draws all its randomness through module-level
functions of `random` and `numpy.random`, which are replaced for the duration of a run.

Abstract draw kinds (DESIGN.md §3.3):
   ("uniform", m, v)   an integer v uniform in 0..m-1   (randrange / randint / choice / np.random.randint ...)
   ("perm", n, idx)    a uniform permutation of 0..n-1  (np.random.permutation / shuffle / random.shuffle / sample)
   ("u01", None, u)    a uniform float in [0, 1)         (random.random / np.random.random ...)
   ("normal", None, z) a standard normal variate         (np.random.normal, random.gauss)
   ("weighted", n, i)  an index drawn with given weights (random.choices)
"""
import random
import numpy as np


class TapeMismatch(BaseException):
    """The code asked for a draw the script does not provide (BaseException: not caught by the library).
    reason: "range" (same kind of draw, other range - e.g. a row drawn from a part of the storage only),
            "kind" (another primitive: the behaviour cannot be followed, which is not by itself a violation),
            "exhausted" (the code wants more draws than the behaviour has)"""
    reason = "kind"


class TapeExhausted(TapeMismatch):
    """script mode ran out of scripted draws: the enumerator branches on (kind, range) here"""

    def __init__(self, kind, rng, api, weights=None):
        super().__init__("script exhausted: code asked for %s(%s) via %s" % (kind, rng, api))
        self.kind, self.range, self.api, self.weights = kind, rng, api, weights
        self.reason = "exhausted"


class Boom(Exception):
    """Injected callback failure."""


# the same failure as the exception types a library might catch for its own purposes: a callback's KeyError,
# ZeroDivisionError, AttributeError ... must propagate like any other exception
class BoomKeyError(Boom, KeyError):
    pass


class BoomZeroDivision(Boom, ZeroDivisionError):
    pass


class BoomAttributeError(Boom, AttributeError):
    pass


class BoomTypeError(Boom, TypeError):
    pass


class BoomValueError(Boom, ValueError):
    pass


class BoomIndexError(Boom, IndexError):
    pass


def carries_boom(exc):
    """the injected fault itself, or an exception chained from it: Python turns a StopIteration that escapes a generator
    into RuntimeError("generator raised StopIteration") with the original as __cause__ (PEP 479), and a library may
    wrap a callback error in an exception of its own `from` the original - in both cases the failure did propagate"""
    seen = 0
    while exc is not None and seen < 8:
        if isinstance(exc, Boom):
            return True
        exc = exc.__cause__ or exc.__context__
        seen += 1
    return False


def _boom_classes():
    out = [Boom, BoomKeyError, BoomZeroDivision, BoomAttributeError, BoomTypeError, BoomValueError, BoomIndexError]
    # ... and as the exception types that have a meaning of their own for Python's iteration / generator / import
    # machinery or that code tends to catch broadly (a StopIteration raised inside map() or a generator silently ends
    # the iteration instead of propagating)
    for base in (StopIteration, StopAsyncIteration, RuntimeError, LookupError, ArithmeticError, OverflowError,
                 FloatingPointError, AssertionError, NotImplementedError, OSError, EOFError, NameError, ImportError,
                 RecursionError, BufferError, UnicodeError):
        out.append(type("Boom" + base.__name__, (Boom, base), {}))
    return out


BOOMS = _boom_classes()


_PY = ["random", "randrange", "randint", "choice", "choices", "shuffle", "sample", "uniform", "gauss",
       "normalvariate", "getrandbits", "seed", "setstate"]
_NP = ["permutation", "shuffle", "choice", "randint", "normal", "random", "rand", "uniform", "random_sample",
       "standard_normal", "seed", "set_state"]


class Tape:
    """mode 'log': delegate to the real global generators and record; mode 'script': serve scripted draws."""

    EXTREME_U01 = [1e-300, 1e-40, 1e-17, 2.0 ** -53, 0.5, 0.999, 1 - 2.0 ** -53, 1e-5, 0.25]

    def __init__(self, mode="log", script=None, sink=None, rng=None):
        """mode: "log" (real generators, recorded) | "script" (scripted draws) | "extreme" (legal but extreme outcomes:
        uniforms next to 0 and 1, first / last index) - every outcome of a draw is a possible outcome"""
        self.rng = rng
        self.mode = mode
        self.script = list(script or [])
        self.log = []
        self.reseeds = []
        self.sink = sink            # optional callable(event) for interleaving with callback events
        self._orig = {}

    # -- context management
    def __enter__(self):
        for n in _PY:
            self._orig[("py", n)] = getattr(random, n)
        for n in _NP:
            self._orig[("np", n)] = getattr(np.random, n)
        random.random = self._u01
        random.randrange = self._randrange
        random.randint = self._randint
        random.choice = self._choice
        random.choices = self._choices
        random.shuffle = self._shuffle
        random.sample = self._sample
        random.uniform = lambda a, b: a + (b - a) * self._u01()
        random.gauss = lambda mu=0.0, sigma=1.0: mu + sigma * self._normal()
        random.normalvariate = lambda mu=0.0, sigma=1.0: mu + sigma * self._normal()
        random.getrandbits = self._getrandbits
        # the library must never (re)seed or set the state of the global generators: that is the user's business
        random.seed = lambda *a, **k: self._reseed("random.seed", ("py", "seed"), a, k)
        random.setstate = lambda *a, **k: self._reseed("random.setstate", ("py", "setstate"), a, k)
        np.random.seed = lambda *a, **k: self._reseed("np.random.seed", ("np", "seed"), a, k)
        np.random.set_state = lambda *a, **k: self._reseed("np.random.set_state", ("np", "set_state"), a, k)
        np.random.permutation = self._np_permutation
        np.random.shuffle = self._np_shuffle
        np.random.choice = self._np_choice
        np.random.randint = self._np_randint
        np.random.normal = self._np_normal
        np.random.random = self._np_random
        np.random.random_sample = self._np_random
        np.random.rand = lambda *shape: self._np_random(shape if shape else None)
        np.random.uniform = lambda low=0.0, high=1.0, size=None: low + (high - low) * self._np_random(size)
        np.random.standard_normal = lambda size=None: self._np_normal(0.0, 1.0, size)
        return self

    def __exit__(self, *a):
        for (m, n), f in self._orig.items():
            setattr(random if m == "py" else np.random, n, f)
        return False

    # -- core
    def _reseed(self, api, key, a, k):
        self.reseeds.append(api)
        self._emit("reseed", None, 0, api)
        return self._orig[key](*a, **k)

    def _emit(self, kind, rng, val, api):
        if isinstance(rng, np.integer):       # the code passed a NumPy integer as range (e.g. a size given as np.int16)
            rng = int(rng)
        if isinstance(val, np.integer):
            val = int(val)
        ev = {"k": "draw", "kind": kind, "range": rng, "v": val, "api": api}
        self.log.append(ev)
        if self.sink:
            self.sink(ev)

    def _next(self, kind, rng, api, weights=None):
        if not self.script:
            raise TapeExhausted(kind, rng, api, weights)
        k, r, v = self.script.pop(0)
        same_range = True
        if r is not None and rng is not None:
            a = tuple(r) if isinstance(r, (tuple, list)) else (r,)
            b = tuple(rng) if isinstance(rng, (tuple, list)) else (rng,)
            same_range = a == b
        if k != kind or not same_range:
            e = TapeMismatch("script has %s(%s), code asked for %s(%s) via %s" % (k, r, kind, rng, api))
            e.reason = "range" if k == kind else "kind"
            raise e
        return v

    def _uniform(self, m, api, orig):
        if isinstance(m, np.integer):
            m = int(m)
        if m <= 0:
            raise ValueError("empty range for %s" % api)
        if self.mode == "script":
            v = self._next("uniform", m, api)
        elif self.mode == "extreme":
            v = self.rng.choice([0, m - 1]) if self.rng.random() < 0.35 else self.rng.randrange(m)
        else:
            v = orig()
        self._emit("uniform", m, int(v), api)
        return int(v)

    def _perm(self, n, api):
        if self.mode == "script":
            idx = list(self._next("perm", n, api))
        else:
            idx = [int(i) for i in self._orig[("np", "permutation")](n)] if api.startswith("np.") else \
                self._orig[("py", "sample")](range(n), n)
        self._emit("perm", n, list(idx), api)
        return idx

    def _u01(self):
        if self.mode == "script":
            v = self._next("u01", None, "random.random")
        elif self.mode == "extreme":
            v = self.rng.choice(self.EXTREME_U01) if self.rng.random() < 0.35 else self.rng.random()
        else:
            v = self._orig[("py", "random")]()
        self._emit("u01", None, v, "random.random")
        return v

    def _normal(self):
        if self.mode == "script":
            v = self._next("normal", None, "normal")
        else:
            v = self._orig[("py", "gauss")](0.0, 1.0)
        self._emit("normal", None, v, "normal")
        return v

    # -- random.*
    def _randrange(self, start, stop=None, step=1):
        if stop is None:
            lo, hi = 0, start
        else:
            lo, hi = start, stop
        if step != 1:
            n = len(range(lo, hi, step))
            return lo + step * self._uniform(n, "random.randrange", lambda: self._orig[("py", "randrange")](n))
        return lo + self._uniform(hi - lo, "random.randrange", lambda: self._orig[("py", "randrange")](hi - lo))

    def _randint(self, a, b):
        return a + self._uniform(b - a + 1, "random.randint", lambda: self._orig[("py", "randint")](0, b - a))

    def _choice(self, seq):
        if len(seq) == 0:
            raise IndexError("Cannot choose from an empty sequence")
        return seq[self._uniform(len(seq), "random.choice", lambda: self._orig[("py", "randrange")](len(seq)))]

    def _choices(self, population, weights=None, *, cum_weights=None, k=1):
        out = []
        if weights is None and cum_weights is None:
            return [population[self._uniform(len(population), "random.choices",
                                             lambda: self._orig[("py", "randrange")](len(population)))] for _ in range(k)]
        for _ in range(k):
            if self.mode == "script":
                w = list(weights) if weights is not None else None
                if w is None and cum_weights is not None:
                    cw = list(cum_weights)
                    w = [cw[0]] + [b - a for a, b in zip(cw, cw[1:])]
                i = self._next("weighted", len(population), "random.choices", w)
            else:
                i = self._orig[("py", "choices")](range(len(population)), weights=weights, cum_weights=cum_weights, k=1)[0]
            self._emit("weighted", len(population), int(i), "random.choices")
            out.append(population[i])
        return out

    def _shuffle(self, x):
        idx = self._perm(len(x), "random.shuffle")
        items = [x[i] for i in idx]
        for i, it in enumerate(items):
            x[i] = it

    def _sample(self, population, k, **kw):
        """k distinct items in random order: an ordered selection without replacement ("sample", (m, k))"""
        population = list(population)
        m = len(population)
        if k > m or k < 0:
            raise ValueError("Sample larger than population or is negative")
        if k == 1:
            return [population[self._uniform(m, "random.sample", lambda: self._orig[("py", "randrange")](m))]]
        if self.mode == "script":
            idx = list(self._next("sample", (m, k), "random.sample"))
        else:
            idx = self._orig[("py", "sample")](range(m), k)
        self._emit("sample", [m, k], list(idx), "random.sample")
        return [population[i] for i in idx]

    def _getrandbits(self, k):
        return self._uniform(1 << k, "random.getrandbits", lambda: self._orig[("py", "getrandbits")](k))

    # -- numpy.random.*
    def _np_permutation(self, x):
        if isinstance(x, (int, np.integer)):
            return np.array(self._perm(int(x), "np.random.permutation"))
        arr = np.asarray(x)      # numpy's own conversion (mixed str/number lists become strings)
        idx = self._perm(len(arr), "np.random.permutation")
        return arr[idx]

    def _np_shuffle(self, x):
        idx = self._perm(len(x), "np.random.shuffle")
        items = [x[i] for i in idx]
        for i, it in enumerate(items):
            x[i] = it

    def _np_choice(self, a, size=None, replace=True, p=None):
        pop = list(range(a)) if isinstance(a, (int, np.integer)) else list(a)
        if p is not None or (size is not None and not replace):
            if size is not None and not replace and p is None:
                idx = self._perm(len(pop), "np.random.choice")
                k = int(np.prod(size))
                return np.array([pop[i] for i in idx[:k]]).reshape(size)
            n = 1 if size is None else int(np.prod(size))
            out = []
            for _ in range(n):
                if self.mode == "script":
                    i = self._next("weighted", len(pop), "np.random.choice", None if p is None else list(p))
                else:
                    i = int(self._orig[("np", "choice")](len(pop), p=p))
                self._emit("weighted", len(pop), int(i), "np.random.choice")
                out.append(pop[i])
            return out[0] if size is None else np.array(out).reshape(size)
        n = 1 if size is None else int(np.prod(size))
        out = [pop[self._uniform(len(pop), "np.random.choice", lambda: int(self._orig[("np", "randint")](len(pop))))]
               for _ in range(n)]
        return out[0] if size is None else np.array(out).reshape(size)

    def _np_randint(self, low, high=None, size=None, dtype=int):
        if high is None:
            low, high = 0, low
        n = 1 if size is None else int(np.prod(size))
        out = [low + self._uniform(high - low, "np.random.randint",
                                   lambda: int(self._orig[("np", "randint")](high - low))) for _ in range(n)]
        return out[0] if size is None else np.array(out).reshape(size)

    def _np_normal(self, loc=0.0, scale=1.0, size=None):
        n = 1 if size is None else int(np.prod(size))
        out = []
        for _ in range(n):
            if self.mode == "script":
                z = self._next("normal", None, "np.random.normal")
            else:
                z = float(self._orig[("np", "normal")](0.0, 1.0))
            self._emit("normal", None, z, "np.random.normal")
            out.append(loc + scale * z)
        return out[0] if size is None else np.array(out).reshape(size)

    def _np_random(self, size=None):
        n = 1 if size is None else int(np.prod(size))
        out = []
        for _ in range(n):
            if self.mode == "script":
                v = self._next("u01", None, "np.random.random")
            elif self.mode == "extreme":
                v = self.rng.choice(self.EXTREME_U01) if self.rng.random() < 0.35 else self.rng.random()
            else:
                v = float(self._orig[("np", "random")]())
            self._emit("u01", None, v, "np.random.random")
            out.append(v)
        return out[0] if size is None else np.array(out).reshape(size)
