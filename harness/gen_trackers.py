"""Scenario generators and projections for the trackers (C10, C11, C12, C20)."""
import math
import random
from fractions import Fraction as F

from harness.fieldp import red, P, Unrepresentable


def _imp():
    from ixai.utils.tracker import WelfordTracker, ExponentialSmoothingTracker, MultiValueTracker
    return WelfordTracker, ExponentialSmoothingTracker, MultiValueTracker


def proj_base(t):
    """[n, val, ss] of a base tracker (ss = 0 for exponential smoothing)."""
    return [int(t.N), red(t.tracked_value), red(getattr(t, "sum_squares", 0))]


def rand_frac(rng, big=True):
    if big:
        den = rng.randrange(1, 10 ** 6)
        while den % P == 0:            # not representable in GF(P): draw another value
            den = rng.randrange(1, 10 ** 6)
        return F(rng.randrange(-10 ** 9, 10 ** 9), den)
    return F(rng.randrange(-6, 7), rng.choice([1, 1, 2, 3]))


def base_traces(rng, ntraces, length):
    """Random exact streams through WelfordTracker / ExponentialSmoothingTracker, one event per update."""
    W, E, _ = _imp()
    out = []
    for t in range(ntraces):
        kind = "welford" if t % 2 == 0 else "es"
        if kind == "es":
            alpha = rng.choice([F(0), F(1), F(1, 2), F(rng.randrange(0, 10 ** 6 + 1), 10 ** 6),
                                F(rng.randrange(1, 1000), 1000)])
            trk = E(alpha=alpha)
            comp = E(alpha=F(1, 3))
        else:
            alpha = F(0)
            trk = W()
            comp = W()
        ev = []
        style = rng.randrange(4)
        for i in range(length):
            if style == 0:
                v = rand_frac(rng)
            elif style == 1:
                v = rand_frac(rng, big=False)
            elif style == 2:
                v = F(rng.choice([0, 0, 1, -1]))          # many zeros / repeats
            else:
                v = F(10 ** 9) + rand_frac(rng, big=False)  # large offset
            comp.update(rand_frac(rng, big=False))      # a second live tracker: objects must not share state
            pre = proj_base(trk)
            r = trk.update(v)
            e = {"v": red(v), "pre": pre, "post": proj_base(trk), "var": 0, "mean": 0,
                 "returns_self": r is trk}
            if kind == "welford":
                e["var"] = red(trk.var)
                e["mean"] = red(trk.mean)
            ev.append(e)
        out.append({"type": "base", "kind": kind, "alpha": red(alpha), "ev": ev,
                    "meta": {"alpha": str(alpha), "style": style}})
    return out


KEYS = ["a", "b", "c", 1, 2]


def mv_proj(m):
    keys = list(m.tracked_value.keys())
    return [[repr(k), proj_base(m.tracked_value[k])] for k in keys]


class NotADict(Exception):
    """an accessor that is specified to return a dict returned something else"""


def mv_traces(rng, ntraces, length):
    """Random update-dict sequences (changing key sets) through MultiValueTracker."""
    W, E, MV = _imp()
    out = []
    for t in range(ntraces):
        kind = "welford" if t % 2 == 0 else "es"
        alpha = F(rng.randrange(1, 1000), 1000) if kind == "es" else F(0)
        base = E(alpha=alpha) if kind == "es" else W()
        m = MV(base)
        comp = MV(base)
        pool = rng.sample(KEYS, rng.randrange(1, len(KEYS) + 1))
        ev = []
        for i in range(length):
            nk = rng.randrange(0, len(pool) + 1)
            ks = rng.sample(pool, nk)
            zero_sum = rng.random() < 0.15 and len(ks) >= 2
            upd = {k: (rand_frac(rng, big=rng.random() < 0.5)) for k in ks}
            if t % 5 == 3:           # tiny magnitudes: a near-zero (but non-zero) normaliser is not a zero normaliser
                upd = {k: v / 10 ** 12 for k, v in upd.items()}
            if zero_sum and kind == "welford" and i == 0:
                s = sum(list(upd.values())[:-1])
                upd[ks[-1]] = -s
            comp.update({"zz": F(1), rng.choice(KEYS): F(2)})    # a second live tracker built from the same base
            pre, pren = mv_proj(m), int(m.N)
            m.update(dict(upd))
            got = m.get()
            norm = m.get_normalized()
            if not isinstance(got, dict) or not isinstance(norm, dict):
                raise NotADict("MultiValueTracker.get() / get_normalized() returned %r / %r" % (type(got).__name__, type(norm).__name__))
            exact_zero = sum(got.values()) == 0
            red_zero = sum(red(v) for v in got.values()) % P == 0
            try:
                norm_red = [[repr(k), red(v)] for k, v in norm.items()]
            except Unrepresentable:
                # the sum of the values is divisible by P although it is not zero: the normalised view cannot be
                # represented in GF(P); the clause is skipped (and counted), never failed
                norm_red = [[repr(k), 0] for k in norm]
                red_zero = not exact_zero
            e = {"upd": [[repr(k), red(v)] for k, v in upd.items()], "pre": pre, "pren": pren,
                 "post": mv_proj(m), "postn": int(m.N),
                 "get": [[repr(k), red(v)] for k, v in got.items()],
                 "norm": norm_red,
                 "normok": exact_zero == red_zero}
            ev.append(e)
        out.append({"type": "mv", "kind": kind, "alpha": red(alpha), "ev": ev,
                    "meta": {"alpha": str(alpha), "pool": [str(k) for k in pool]}})
    return out
