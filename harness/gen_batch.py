"""Scenario runner for BatchSage / IntervalSage (C05; batch parts of C04, C15, C17)."""
import random
import warnings
from fractions import Fraction as F

import numpy as np

from harness.fieldp import red, Unrepresentable
from harness.proxies import Tape, Boom, TapeMismatch, BOOMS, carries_boom

warnings.filterwarnings("ignore")


def _is_pow2(n):
    return n >= 1 and (n & (n - 1)) == 0


class ForeignRows(Exception):
    """the explainer's background data contains rows that never were in its stream (state shared between objects)"""


class BatchScenario:
    def __init__(self, **kw):
        self.cls = kw.get("cls", "batch")              # "batch" | "interval"
        self.mode = kw.get("mode", "many")             # batch: "one" | "many" | "original" | "one_original"
        self.d = kw.get("d", 2)
        self.n_inner = kw.get("n_inner", 1)
        self.n_override = kw.get("n_override", None)
        self.interval = kw.get("interval", 2)
        self.storage_len = kw.get("storage_len", 2)
        self.tables = kw.get("tables", "random")       # "random" | "spec"
        self.model_seed = kw.get("model_seed", 0)
        self.rows = kw.get("rows", [])                 # list of (xvals, y)
        self.calls = kw.get("calls", [])               # interval: list of (force, upd) per row
        self.seed = kw.get("seed", 0)
        self.fault = kw.get("fault", None)             # (call index, callback ordinal)
        self.names = kw.get("names", "idx")
        self.nlab = kw.get("nlab", 1)                  # > 1: dict outputs over several labels, the last label only for some inputs
        self.fault_type = kw.get("fault_type", 0)
        # the loss is a callable *object* carrying attributes a river metric would have (bigger_is_better = True ...):
        # for a plain callable they mean nothing - the loss is used as given
        self.loss_object = kw.get("loss_object", False)
        # the explainer is built with a product MarginalImputer (used by the default mode, ignored by the original mode),
        # and / or (original mode only) its storage holds other rows than the data set being explained - the background of the original mode is
        # the data set itself, one common row per evaluation
        self.imputer_kind = kw.get("imputer_kind", None)
        self.foreign = kw.get("foreign", False)
        # the model reads more features than the explainer is asked to explain: every observation carries one key that is not
        # in feature_names (its value identifies the observation).  Features outside feature_names are never in a coalition's
        # complement - every model input built for an observation must carry that observation's own value of it.
        self.hidden = kw.get("hidden", False)

    def to_json(self):
        d = dict(self.__dict__)
        d["rows"] = [[[str(v) for v in xs], y] for xs, y in self.rows]
        return d

    @staticmethod
    def from_json(d):
        d = dict(d)
        d["rows"] = [([F(v) for v in xs], y) for xs, y in d["rows"]]
        d["calls"] = [tuple(c) for c in d.get("calls", [])]
        if d.get("fault"):
            d["fault"] = tuple(d["fault"])
        return BatchScenario(**d)

    def key(self):
        return "%s/%s d=%d n=%d(%s) interval=%d storage=%d rows=%d seed=%d" % (
            self.cls, self.mode, self.d, self.n_inner, self.n_override, self.interval, self.storage_len, len(self.rows), self.seed)


def run(sc, tape_mode="log", script=None, provider=None):
    """Run a scenario on the real classes.  Returns a trace dict for Trace_BatchSage.tla."""
    from ixai.explainer import BatchSage, IntervalSage
    from harness.gen_explainer import NAME_SCHEMES
    d = sc.d
    names = NAME_SCHEMES[sc.names](d)
    rng = random.Random(sc.model_seed * 31 + 7)
    W = [rng.randrange(-3, 4) for _ in range(d)]
    if all(w == 0 for w in W):
        W[0] = 2
    C = rng.randrange(-2, 3)
    st = {"events": [], "cb": 0, "fault_at": None, "in_imp": 0}

    def xvec(x):
        return [x[nm] for nm in names]

    HID = "not explained"

    def hid_of(xs):
        return float(sum((i + 2) * float(v) * 13 ** i for i, v in enumerate(xs))) + 0.25

    def xdict(xs):
        x = {nm: float(v) for nm, v in zip(names, xs)}
        if sc.hidden:
            x[HID] = hid_of(xs)
        return x

    def raw_model(x):
        v = xvec(x)
        if sc.tables == "spec":
            return {"output": float(sum(((i % 2) + 1) * v[i - 1] for i in range(1, d + 1)) - 1 + v[0] * v[d - 1])}
        if sc.nlab > 1:
            out = {}
            for lab in range(sc.nlab):
                if lab == sc.nlab - 1 and v[0] < 0:
                    continue          # label sets differ between rows of the same data set
                out[lab] = float(sum((W[i] + lab) * v[i] for i in range(d)) + lab)
            return out
        return {"output": float(sum(W[i] * v[i] for i in range(d)) + C * v[0] * v[-1] + 1)}

    def raw_loss(y, p):
        if sc.tables == "spec":
            return float((y - p["output"]) ** 2 - y)
        if sc.nlab > 1:       # sensitive to every label, present or missing
            return float(sum((y * (k + 1) - pv) ** 2 for k, pv in p.items()) + 2 * len(p) - y)
        return float((2 * y - p["output"]) ** 2 - y + 3)

    def lab_pairs(out):
        return sorted([[0 if k == "output" else int(k) + 1, red(v)] for k, v in out.items()])

    def cb(kind):
        st["cb"] += 1
        if st["fault_at"] is not None and st["cb"] == st["fault_at"]:
            raise BOOMS[(getattr(sc, "fault_type", 0) + st["cb"]) % len(BOOMS)]("injected fault in %s callback #%d" % (kind, st["cb"]))

    def model(x):
        if not isinstance(x, dict):
            xs = list(x)
            st["events"].append({"k": "batch_begin", "n": len(xs)})
            out = [model(xi) for xi in xs]
            st["events"].append({"k": "batch_end"})
            return out
        cb("model")
        out = raw_model(x)
        st["events"].append({"k": "model", "x": [red(v) for v in xvec(x)], "out": lab_pairs(out), "imp": st["in_imp"],
                             "hid": x.get(HID) if isinstance(x, dict) else None})
        return out

    def loss(y_true, y_pred):
        cb("loss")
        val = raw_loss(y_true, y_pred)
        st["events"].append({"k": "loss", "y": y_true, "pred": lab_pairs(y_pred), "val": red(val), "raw": val})
        return val

    if sc.loss_object:
        class LossObject:
            bigger_is_better = True
            requires_labels = True

            def __init__(self, fn):
                self.fn = fn

            def __call__(self, y_true, y_pred):
                return self.fn(y_true, y_pred)
        loss = LossObject(loss)
    random.seed(sc.seed)
    np.random.seed(sc.seed % 2 ** 32)
    kw = {}
    if sc.n_inner != 1:
        kw["n_inner_samples"] = sc.n_inner
    if sc.cls == "interval":
        if sc.imputer_kind == "product" or sc.foreign:
            # the explainer is handed its storage and imputer: the window is the supplied IntervalStorage (whatever
            # storage_length says), sampling follows the supplied imputer
            from ixai.storage import IntervalStorage
            from ixai.imputer import MarginalImputer
            st_ = IntervalStorage(size=sc.storage_len, store_targets=True)
            imp_ = MarginalImputer(model, "product" if sc.imputer_kind == "product" else "joint", st_)
            ex = IntervalSage(model, names, loss, interval_length=sc.interval, storage_length=sc.storage_len + 3, storage=st_,
                              imputer=imp_, **kw)
        else:
            ex = IntervalSage(model, names, loss, interval_length=sc.interval, storage_length=sc.storage_len, **kw)
    else:
        if sc.imputer_kind == "product":
            from ixai.storage import BatchStorage
            from ixai.imputer import MarginalImputer
            st_ = BatchStorage(store_targets=True)
            ex = BatchSage(model, names, loss, storage=st_, imputer=MarginalImputer(model, "product", st_), **kw)
        else:
            ex = BatchSage(model, names, loss, **kw)
    # harness-side wrappers (instance level) around imputer.impute and storage.update
    from harness.gen_explainer import find_part
    from ixai.imputer.base import BaseImputer
    from ixai.storage.base import BaseStorage
    imp = find_part(ex, BaseImputer, "_imputer")
    orig_impute = imp.impute

    def impute(*a, **k):
        fs = k.get("feature_subset", a[0] if a else None)
        cb("impute")
        st["events"].append({"k": "impute", "subset": sorted(names.index(f) + 1 for f in fs), "n": k.get("n_samples", a[2] if len(a) > 2 else None)})
        st["in_imp"] += 1
        try:
            return orig_impute(*a, **k)
        finally:
            st["events"].append({"k": "impute_end"})
    imp.impute = impute
    sto = find_part(ex, BaseStorage, "_storage")
    orig_update = sto.update

    def update(*a, **k):
        cb("store")
        st["events"].append({"k": "store"})
        return orig_update(*a, **k)
    sto.update = update

    def sink(ev):
        st["events"].append(ev)

    def values_of():
        return sorted([[names.index(k) + 1, red(v)] for k, v in ex.importance_values.items() if k in names])

    def storage_rows():
        xs, ys = sto.get_data()
        if any(nm not in r for r in xs for nm in names):
            raise ForeignRows("the storage of the explainer holds rows that are not observations of its own stream: %r" % (
                [dict(r) for r in xs if any(nm not in r for nm in names)][:2],))
        return [[red(r[nm]) for nm in names] for r in xs], list(ys)

    n_eff = sc.n_override if sc.n_override is not None else sc.n_inner
    # a user-supplied product imputer is what the default mode samples with; the original mode never uses the imputer
    trace = {"cls": sc.cls, "d": d, "interval": sc.interval, "storage_len": sc.storage_len, "key": sc.key(), "calls": [],
             "strategy": "product" if (sc.imputer_kind == "product" and (sc.cls == "interval" or sc.mode in ("many", "one"))) else "joint"}
    floats_ok = []
    updated = []
    with Tape(mode=tape_mode, script=script, sink=sink) as tape:
        def one_call(ci, fn, rows_explained, background, force=False, upd=True, seen_before=0):
            st["events"] = []
            st["cb"] = 0
            st["fault_at"] = sc.fault[1] if sc.fault and sc.fault[0] == ci else None
            vb = values_of()
            outcome, ret, exc = "ret", None, ""
            try:
                ret = fn()
            except Boom:
                outcome = "exc"
            except (TapeMismatch, Unrepresentable):
                raise
            except Exception as e:
                if carries_boom(e):
                    outcome = "exc"
                else:
                    outcome, exc = "err", "%s: %s" % (type(e).__name__, str(e)[:160])
            ev = st["events"]
            c = {"outcome": outcome, "exc": exc, "force": force, "upd": upd, "values_before": vb, "values": values_of(),
                 "nmodel": sum(1 for e in ev if e["k"] == "model"), "nloss": sum(1 for e in ev if e["k"] == "loss"),
                 "seen_before": seen_before, "seen_after": int(getattr(ex, "seen_samples", seen_before + 1)),
                 "ret_ok": outcome != "ret" or ret is ex.importance_values or (isinstance(ret, dict) and dict(ret) == dict(ex.importance_values)),
                 "n": n_eff, "fault": sc.fault[1] if sc.fault and sc.fault[0] == ci else 0,
                 "raw_values": dict(ex.importance_values)}
            c["recomputed"] = c["nmodel"] > 0 and outcome == "ret"
            parse(c, ev, rows_explained, background)
            trace["calls"].append(c)
            return c

        def parse(c, ev, rows_explained, background):
            """split the callback stream into the batch call and one block per explained observation"""
            c["rows"] = [[red(v) for v in xs] for xs, y in rows_explained]
            c["background"] = background
            c["window"] = c["rows"]
            c["want_window"] = c["rows"]
            c["batch_in"], c["batch_out"], c["obs"], c["exact"] = [], [], [], False
            c["exact_m"], c["exact_n"] = _is_pow2(len(rows_explained)), _is_pow2(c["n"] or 1)
            c["shape_ok"] = True
            c["hidden_ok"] = True
            if not c["recomputed"]:
                return
            try:
                i = 0
                while ev[i]["k"] != "batch_begin":
                    i += 1
                i += 1
                while ev[i]["k"] != "batch_end":
                    if ev[i]["k"] == "model":
                        c["batch_in"].append(ev[i]["x"])
                        c["batch_out"].append(ev[i]["out"])
                    i += 1
                rest = [e for e in ev[i + 1:] if e["k"] in ("model", "loss", "impute", "draw")]
                m = len(rows_explained)
                blocks, curb = [], None
                nloss = 0
                for e in rest:
                    if curb is None:
                        curb = {"perm": None, "L": [], "Lraw": [], "preds": [], "outs": [[]], "ins": [[]], "subsets": []}
                    if e["k"] == "draw" and e["kind"] == "perm" and not curb["L"]:
                        curb["perm"] = [int(v) + 1 for v in e["v"]]
                    elif e["k"] == "impute":
                        curb["subsets"].append(e["subset"])
                    elif e["k"] == "model":
                        curb["outs"][-1].append(e["out"])
                        curb["ins"][-1].append(e["x"])
                        curb.setdefault("hids", []).append(e.get("hid"))
                    elif e["k"] == "loss":
                        curb["L"].append(e["val"])
                        curb["Lraw"].append(e["raw"])
                        curb["preds"].append(e["pred"])
                        if len(curb["L"]) == d + 1:
                            blocks.append(curb)
                            curb = None
                        else:
                            if len(curb["L"]) >= 1:
                                curb["outs"].append([])
                                curb["ins"].append([])
                if curb is not None or len(blocks) != m:
                    raise ValueError("callback stream does not split into %d observations" % m)
                for bi, (b, (xs, y)) in enumerate(zip(blocks, rows_explained)):
                    # group 0 (before L_0) must hold no model calls; groups 1..d belong to the chain positions
                    if len(b["outs"]) != d + 1 or b["outs"][0]:
                        raise ValueError("unexpected grouping of model calls")
                    outs, ins = b["outs"][1:], b["ins"][1:]
                    # (the original mode takes whole rows of the data set as background, unexplained keys included)
                    if sc.hidden and "original" not in str(sc.mode) and any(h != hid_of(xs) for h in b.get("hids", [])):
                        c["hidden_ok"] = False
                    if b["subsets"] and len(b["subsets"]) == d:
                        order = []
                        prev = set(range(1, d + 1))
                        for s in b["subsets"]:
                            diff = prev - set(s)
                            if len(diff) != 1:
                                raise ValueError("imputer subsets do not shrink by one feature")
                            order.append(diff.pop())
                            prev = set(s)
                    elif b["perm"] is not None and len(b["perm"]) == d:
                        order = b["perm"]
                    else:
                        raise ValueError("feature order not observable")
                    raw_out = raw_model({nm: float(v) for nm, v in zip(names, xs)})
                    c["obs"].append({"x": [red(v) for v in xs], "y": y, "order": order, "perm": b["perm"] or [],
                                     "L": b["L"], "Lraw": b["Lraw"], "lmodel_raw": raw_loss(y, raw_out),
                                     "preds": b["preds"], "outs": outs, "ins": ins,
                                     "lmodel": red(raw_loss(y, raw_out)), "lmodel_pred": lab_pairs(raw_out)})
                c["exact"] = _is_pow2(m) and _is_pow2(c["n"] or 1)
            except (ValueError, IndexError, KeyError) as e:
                c["shape_ok"] = False
                c["shape_err"] = str(e)
                c["recomputed_unparsed"] = True
                c["recomputed"] = False
                c["obs"] = []

        if sc.cls == "batch":
            data = [(xdict(xs), y) for xs, y in sc.rows]
            if sc.mode in ("many", "original"):
                if sc.foreign and sc.mode == "original":
                    for x, y in data:
                        ex.update_storage({nm: v + 5.0 for nm, v in x.items()}, y)
                    bg = [[red(v) for v in xs] for xs, _ in sc.rows]       # the data set itself, not the storage
                else:
                    for x, y in data:
                        ex.update_storage(x, y)
                    bg, _ = storage_rows()
                x_data, y_data = [x for x, _ in data], [y for _, y in data]
                # the data in other sequence representations, the arguments by keyword
                if sc.seed % 3 == 0:
                    y_data = np.array(y_data)
                if sc.seed % 4 == 1:
                    x_data = tuple(x_data)
                kw2 = {"verbose": False}
                if sc.n_override is not None:
                    kw2["n_inner_samples"] = np.int64(sc.n_override) if sc.seed % 2 else sc.n_override
                if sc.seed % 5 == 2:
                    fn = (lambda: ex.explain_many_original(x_data=x_data, y_data=y_data, **kw2)) if sc.mode == "original" else \
                         (lambda: ex.explain_many(x_data=x_data, y_data=y_data, **kw2))
                else:
                    fn = (lambda: ex.explain_many_original(x_data, y_data, **kw2)) if sc.mode == "original" else \
                         (lambda: ex.explain_many(x_data, y_data, **kw2))
                c = one_call(0, fn, sc.rows, bg)
                c["mode"] = sc.mode
                if c["outcome"] == "exc" and getattr(sc, "repeat_after_fault", True):
                    # the explanation failed: the same object explains the same data again (nothing of the failed attempt
                    # may be left behind)
                    c2 = one_call(1, fn, sc.rows, bg)
                    c2["mode"] = sc.mode
            else:
                held = []          # rows the storage holds (a call that failed inside the storage update stored nothing)
                for ci, (x, y) in enumerate(data):
                    kw2 = {"verbose": False}
                    if sc.mode == "one_original" or sc.seed % 2:      # (the documented default is left to the library half of the time)
                        kw2["original_sage"] = sc.mode == "one_original"
                    if sc.n_override is not None:
                        kw2["n_inner_samples"] = sc.n_override
                    rows_now = held + [sc.rows[ci]]
                    bg = [[red(v) for v in xs] for xs, _ in rows_now]
                    c = one_call(ci, lambda x=x, y=y: ex.explain_one(x, y, **kw2), rows_now, bg)
                    c["mode"] = sc.mode
                    if c["outcome"] != "exc" or any(r is x for r in sto.get_data()[0]):
                        held.append(sc.rows[ci])
        else:
            for ci, ((xs, y), (force, upd)) in enumerate(zip(sc.rows, sc.calls)):
                x = xdict(xs)
                if upd:
                    updated.append((xs, y))
                win = updated[-sc.storage_len:] if sc.storage_len > 0 else []
                seen_before = int(ex.seen_samples)
                kw2 = {"verbose": False}
                if force or (sc.seed + ci) % 2:                      # (documented defaults left to the library half of the time)
                    kw2["force_explain"] = force
                if not upd or (sc.seed + ci) % 3 == 0:
                    kw2["update_storage"] = upd
                if sc.n_override is not None:
                    kw2["n_inner_samples"] = sc.n_override
                c = one_call(ci, lambda x=x, y=y: ex.explain_one(x, y, **kw2), win,
                             [[red(v) for v in w[0]] for w in win], force=force, upd=upd, seen_before=seen_before)
                if upd and c["outcome"] == "exc" and not any(r is x for r in sto.get_data()[0]):
                    updated.pop()          # the call failed inside the storage update: nothing was stored
                    win = updated[-sc.storage_len:] if sc.storage_len > 0 else []
                got_rows, _ = storage_rows()
                c["window"] = got_rows
                c["want_window"] = [[red(v) for v in w[0]] for w in win]
                c["mode"] = "interval"
    return trace
