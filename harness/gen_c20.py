"""C20: offset-ill-conditioned short float streams through the real trackers, re-represented for Trace_C20.tla."""
import math
import random
from fractions import Fraction as F


def make_deltas(rng, n, ordering):
    d = [rng.randrange(-6, 7) for _ in range(n)]
    if ordering == "sorted":
        d.sort()
    elif ordering == "alternating":
        d = [(-1) ** i * abs(x) for i, x in enumerate(d)]
    elif ordering == "jump":
        j = rng.randrange(1, n) if n > 1 else 0
        a, b = rng.randrange(-6, 7), rng.randrange(-6, 7)
        d = [a] * j + [b] * (n - j)
    elif ordering == "constant":
        d = [d[0]] * n
    return d


def record(tracker_factory, es_factory, e, scale_exp, deltas, k):
    """run the float trackers on v_i = 2^scale_exp * (2^e + delta_i); returns the event for TLC (or raises)"""
    s = 2.0 ** scale_exp
    c = 2 ** e
    Q = 2 ** (53 - e)
    vs = [s * float(c + dl) for dl in deltas]
    w = tracker_factory()
    for v in vs:
        w.update(v)
    mean_f, var_f, std_f = float(w.mean), float(w.var), float(w.std)
    n = len(deltas)
    finite = all(map(math.isfinite, (mean_f, var_f, std_f))) and int(w.N) == n
    ev = {"e": e, "deltas": list(deltas), "finite": bool(finite), "k": k, "has_es": False, "mean_k": 0, "vq": 0, "ip": 0, "fq": 0,
          "scale_exp": scale_exp}
    if not finite:
        return ev
    mk = (F(mean_f) / F(s) - c) * 2 ** 23         # exact rational arithmetic on the double results
    # clamp wildly wrong results so that TLC's 32-bit arithmetic cannot overflow (the clamped value still violates the bound)
    ev["mean_k"] = max(-65000000, min(65000000, int(math.floor(mk))))
    ev["vq"] = max(-2000000, min(2000000, int(math.floor(F(var_f) / (F(s) * F(s)) * 2 ** 14))))
    if es_factory is not None and k * n <= 23:
        es = es_factory(2.0 ** -k)
        for v in vs:
            es.update(v)
        es_f = float(es.get())
        if not math.isfinite(es_f):
            ev["finite"] = False
            return ev
        r = F(es_f) / F(s)
        ip = math.floor(r)
        T = 2 ** (e - k * n) * (2 ** k - 1) ** n
        ip_c = max(c - T - 100, min(c - T + 100, int(ip)))        # clamp (see above)
        if ip_c != ip:
            r = F(ip_c)
            ip = ip_c
        ev["ip"] = int(ip)
        ev["fq"] = int(math.floor((r - ip) * Q))
        ev["has_es"] = True
    return ev


class Textbook:
    """negative control: E[x^2] - E[x]^2 (catastrophic cancellation)"""

    def __init__(self):
        self.N, self.s, self.s2 = 0, 0.0, 0.0

    def update(self, v):
        self.N += 1
        self.s += v
        self.s2 += v * v

    @property
    def mean(self):
        return self.s / self.N

    @property
    def var(self):
        return self.s2 / self.N - (self.s / self.N) ** 2

    @property
    def std(self):
        return abs(self.var) ** 0.5
