"""Exact distributions of the implementation's random choices (enumerate mode of the RNG tape) and
calibrated statistics (DESIGN.md §3.5 C and D)."""
import copy
import itertools
import math
from fractions import Fraction as F

from harness.proxies import Tape, TapeExhausted, TapeMismatch


def outcomes_of(kind, rng, grid, weights=None):
    """all outcomes of one abstract draw with their weights"""
    if kind == "weighted":
        ws = [F(w) for w in (weights if weights is not None else [1] * rng)]
        tot = sum(ws)
        return [(i, w / tot) for i, w in enumerate(ws) if w != 0]
    if kind == "uniform":
        return [(v, F(1, rng)) for v in range(rng)]
    if kind == "u01":
        return [((g + 0.5) / grid, F(1, grid)) for g in range(grid)]
    if kind == "sample":
        m, k = rng
        sel = list(itertools.permutations(range(m), k))
        return [(list(p), F(1, len(sel))) for p in sel]
    if kind == "perm":
        perms = list(itertools.permutations(range(rng)))
        return [(list(p), F(1, len(perms))) for p in perms]
    raise TapeMismatch("cannot enumerate draws of kind %s" % kind)


def enumerate_call(fresh_state, do_call, grid=60, max_runs=200000):
    """Exact law of `do_call(state)` over the code's own random draws.

    fresh_state() -> a new copy of the pre-state; do_call(state) -> result (any picklable summary).
    Depth-first over draw sequences: the call is re-executed with a scripted tape, and whenever the
    script is exhausted the enumerator branches over all outcomes of the requested draw.
    Returns list of (weight, result, script)."""
    results = []
    stack = [([], F(1))]
    runs = 0
    while stack:
        script, w = stack.pop()
        runs += 1
        if runs > max_runs:
            raise TapeMismatch("enumeration exceeded %d executions" % max_runs)
        st = fresh_state()
        try:
            with Tape(mode="script", script=[tuple(s) for s in script]):
                res = do_call(st)
        except TapeExhausted as e:
            for v, pw in outcomes_of(e.kind, e.range, grid, getattr(e, "weights", None)):
                stack.append((script + [(e.kind, e.range, v)], w * pw))
            continue
        results.append((w, res, script))
    return results


def binom_two_sided_p(k, n, p):
    """exact two-sided binomial tail (doubling the smaller tail, capped at 1)"""
    from scipy.stats import binom
    if p <= 0:
        return 1.0 if k == 0 else 0.0
    if p >= 1:
        return 1.0 if k == n else 0.0
    lo = binom.cdf(k, n, p)
    hi = binom.sf(k - 1, n, p)
    return min(1.0, 2 * min(lo, hi))
