"""C13 - a river metric used as loss is a pure, smaller-is-better function of its inputs."""
import random

from harness import core, tlc, metric_loss as ML

PID = "C13"


def explainer_integration(ctx, rng, nruns):
    """a river metric used as loss inside the explainers behaves like the plain function it stands for"""
    import math
    import numpy as np
    from river import metrics
    from ixai.explainer import IncrementalSage, IncrementalPFI, BatchSage, IntervalSage
    plain = {
        "MSE": lambda y, p: (float(y) - p["output"]) ** 2,
        "MAE": lambda y, p: abs(float(y) - p["output"]),
        "Accuracy": lambda y, p: -1.0 if y == p["output"] else -0.0,      # bigger is better -> negated
        "CrossEntropy": lambda y, p: -math.log(max(min(p.get(y, 0.0), 1 - 1e-15), 1e-15)),
    }
    n = 0
    for i in range(nruns):
        name = list(plain)[i % len(plain)]
        cls = [IncrementalSage, IncrementalPFI, BatchSage, IntervalSage][(i // len(plain)) % 4]
        seed = rng.randrange(2 ** 31)
        names = ["a", "b", "c"]

        def model(x, name=name):
            if not isinstance(x, dict):
                return [model(xi) for xi in x]
            s_ = 0.7 * x["a"] - 0.2 * x["b"] + 0.1 * x["c"]
            if name == "CrossEntropy":
                p1 = 1 / (1 + math.exp(-s_))
                return {0: 1 - p1, 1: p1}
            if name == "Accuracy":
                return {"output": 1.0 if s_ > 0 else 0.0}
            return {"output": s_}
        results = []
        for loss in (getattr(metrics, name)(), plain[name]):
            random.seed(seed)
            np.random.seed(seed % 2 ** 32)
            data = random.Random(seed + 1)
            if cls is BatchSage:
                ex = cls(model, names, loss, n_inner_samples=2)
            elif cls is IntervalSage:
                ex = cls(model, names, loss, n_inner_samples=2, interval_length=3, storage_length=5)
            else:
                ex = cls(model, loss, names, smoothing_alpha=0.3, dynamic_setting=bool(i % 2), n_inner_samples=2)
            out = []
            for t in range(25 if cls in (IncrementalSage, IncrementalPFI) else 9):
                x = {k: data.gauss(0, 1) for k in names}
                y = data.choice([0, 1]) if name in ("Accuracy", "CrossEntropy") else data.gauss(0, 1)
                out.append(dict(ex.explain_one(x, y, verbose=False) if cls in (BatchSage, IntervalSage) else ex.explain_one(x, y)))
            results.append(out)
        n += 1
        ctx.nontrivial(("I", name, cls.__name__, i % 2))
        for t, (a, b) in enumerate(zip(*results)):
            if set(a) != set(b) or any(not math.isfinite(float(a[k])) or abs(float(a[k]) - float(b[k])) > 1e-9 * (1 + abs(float(b[k]))) for k in b):
                ctx.violation("metric.as_loss_in_explainer", "metric=%s explainer=%s" % (name, cls.__name__),
                              "call %d: importance values with the river metric %s, with the plain loss %s" % (t + 1, a, b),
                              {"metric": name, "explainer": cls.__name__, "seed": seed})
                break
    ctx.evaluations += n * 25
    ctx.count_clause("metric.as_loss_in_explainer", n)
    return n


def run(tier, seed):
    ctx = core.Ctx(PID, tier, seed)
    quick = tier == "quick"
    rng = random.Random(seed)
    cfg = "MC_MetricLoss_q" if quick else "MC_MetricLoss_t"
    r = tlc.require_ok(tlc.run("MC_MetricLoss", cfg, workers=1, tag="c13mc"), cfg)
    if r.status != "ok":
        raise tlc.TLCError("MetricLoss violates %s" % r.violated)
    ctx.add_tlc(cfg + ": BagUnchanged ValueIsSingle over all call histories (probe, update, get, revert as separate steps; "
                "wrappers sharing one metric)", r)
    rn = tlc.require_ok(tlc.run("MC_MetricLoss", "MC_MetricLoss_neg", tag="c13neg"), "neg")
    if rn.status != "violation":
        raise tlc.TLCError("negative control NoRevert not refuted")
    ctx.add_tlc("negative control NoRevert refuted (%s)" % rn.violated, rn, kind="negative_control")
    ctx.exhaustive = True
    hists = [h["h"] for h in r.json_prints()]
    if not hists:
        raise tlc.TLCError("no histories exported")
    names = ML.accepted_metrics()
    if len(names) < 10:
        # 41 metrics are accepted on the unchanged tree: the validator (not the harness) stopped accepting them
        ctx.violation("metric.accepted", "validate_loss_function", "only %d river metrics are turned into a loss by validate_loss_function "
                      "(41 on the unchanged tree): %s" % (len(names), names), None)
        return ctx.finish()
    per_metric = 120 if quick else 2500
    total = 0
    for name in names:
        hs = hists if len(hists) <= per_metric else rng.sample(hists, per_metric)
        for h in hs:
            total += 1
            variant = (total // 2) % ML.NVARIANTS      # the three symbolic pairs of the history in several concrete encodings
            probs = ML.replay_history(name, [(w, p) for (w, p) in h], 3, reuse_buffer=(total % 2 == 0), variant=variant)
            for (clause, detail) in probs:
                ctx.violation(clause, "metric=%s" % name, detail, {"metric": name, "history": h, "variant": variant})
            if probs:
                break
        ctx.nontrivial(("A", name))
    ctx.traces += total
    ctx.evaluations += total * len(hists[0])
    ctx.count_clause("metric.*", total)
    ctx.add_stage("TLC-enumerated call histories replayed on the %d metrics accepted by validate_loss_function" % len(names), "replay",
                  histories=total, metrics=len(names))
    ctx.sample({"history": hists[len(hists) // 2], "metrics": names[:8]})
    # long random histories (state leaking only after many calls)
    for name in names:
        h = [(rng.randrange(1, 4), rng.choice(["p1", "p2", "p3"])) for _ in range(200 if quick else 10000)]
        for (clause, detail) in ML.replay_history(name, h, 3, reuse_buffer=True, variant=total % ML.NVARIANTS):
            ctx.violation(clause, "metric=%s long history" % name, detail, {"metric": name, "history": h[:50]})
        total += 1
    n_int = explainer_integration(ctx, rng, 16 if quick else 64)
    ctx.add_stage("explainers driven by river metrics (MSE, MAE, Accuracy, CrossEntropy) give the same importance values as with the "
                  "equivalent plain loss function (same seeds)", "integration", runs=n_int)
    for (clause, detail) in ML.routing():
        ctx.violation(clause, "routing", detail, None)
    ctx.count_clause("metric.routing", 2)
    ctx.assume("metrics of the installed river version with default constructor arguments; the oracle for the single-pair value "
               "is a fresh instance of the metric updated once; zero counts left in a confusion matrix by update+revert are "
               "not observable and ignored")
    return ctx.finish()
