"""C13 - a river metric used as loss is a pure, smaller-is-better function of its inputs."""
import random

from harness import core, tlc, metric_loss as ML

PID = "C13"


def run(tier, seed):
    ctx = core.Ctx(PID, tier, seed)
    quick = tier == "quick"
    rng = random.Random(seed)
    cfg = "MC_MetricLoss_q" if quick else "MC_MetricLoss_t"
    r = tlc.require_ok(tlc.run("MC_MetricLoss", cfg, workers=1, tag="c13mc"), cfg)
    if r.status != "ok":
        raise tlc.TLCError("MetricLoss violates %s" % r.violated)
    ctx.add_tlc(cfg + ": BagUnchanged ValueIsSingle over all call histories (probe, update, get, revert as separate steps; "
                "wrappers sharing one metric)", r)
    rn = tlc.require_ok(tlc.run("MC_MetricLoss", "MC_MetricLoss_neg", tag="c13neg"), "neg")
    if rn.status != "violation":
        raise tlc.TLCError("negative control NoRevert not refuted")
    ctx.add_tlc("negative control NoRevert refuted (%s)" % rn.violated, rn, kind="negative_control")
    ctx.exhaustive = True
    hists = [h["h"] for h in r.json_prints()]
    if not hists:
        raise tlc.TLCError("no histories exported")
    names = ML.accepted_metrics()
    if len(names) < 10:
        raise tlc.TLCError("only %d river metrics accepted by validate_loss_function - harness problem" % len(names))
    per_metric = 120 if quick else 2500
    total = 0
    for name in names:
        hs = hists if len(hists) <= per_metric else rng.sample(hists, per_metric)
        for h in hs:
            total += 1
            probs = ML.replay_history(name, [(w, p) for (w, p) in h], 3, reuse_buffer=(total % 2 == 0))
            for (clause, detail) in probs:
                ctx.violation(clause, "metric=%s" % name, detail, {"metric": name, "history": h})
            if probs:
                break
        ctx.nontrivial(("A", name))
    ctx.traces += total
    ctx.evaluations += total * len(hists[0])
    ctx.count_clause("metric.*", total)
    ctx.add_stage("TLC-enumerated call histories replayed on the %d metrics accepted by validate_loss_function" % len(names), "replay",
                  histories=total, metrics=len(names))
    ctx.sample({"history": hists[len(hists) // 2], "metrics": names[:8]})
    # long random histories (state leaking only after many calls)
    for name in names:
        h = [(rng.randrange(1, 4), rng.choice(["p1", "p2", "p3"])) for _ in range(200 if quick else 10000)]
        for (clause, detail) in ML.replay_history(name, h, 3, reuse_buffer=True):
            ctx.violation(clause, "metric=%s long history" % name, detail, {"metric": name, "history": h[:50]})
        total += 1
    for (clause, detail) in ML.routing():
        ctx.violation(clause, "routing", detail, None)
    ctx.count_clause("metric.routing", 2)
    ctx.assume("metrics of the installed river version with default constructor arguments; the oracle for the single-pair value "
               "is a fresh instance of the metric updated once; zero counts left in a confusion matrix by update+revert are "
               "not observable and ignored")
    return ctx.finish()
