"""C02 - incremental PFI is the running statistic of (mean imputed loss - original loss)."""
import random

from harness import core, engine_explainer as E
from checks import _explainer as X

PID = "C02"


def wanted_replay(clause):
    return clause in ("replay.state.imp", "replay.state.var", "replay.seen", "replay.outcome")


def wanted_trace(clause, trace, call):
    if trace["cls"] != "pfi":
        return False
    return clause.startswith("pfi.") or clause in ("first.no_callbacks", "first.estimates_untouched")


def run(tier, seed):
    ctx = core.Ctx(PID, tier, seed)
    quick = tier == "quick"
    rng = random.Random(seed)
    X.mc_stage(ctx, ["pfi_a"] if quick else ["pfi_a", "pfi_b", "pfi_c", "pfi_d", "pfi_o", "pfi_def"],
               "RunningStatistic ContributionDefinition FirstCallSeedsOnly FirstCallNoModel VarNonNegative LockStep")
    if not quick:
        X.abs_stage(ctx, ["pfi_a", "pfi_w"])
        X.refine_stage(ctx, ["pfi_a", "pfi_b", "pfi_c", "pfi_d", "pfi_o", "pfi_def"])
    X.replay_stage(ctx, ["pfi_q"] if quick else ["pfi_q", "pfi_a", "pfi_prod", "pfi_o"], wanted_replay, limit=None if quick else 3000, rng=rng)
    n = 120 if quick else 1500
    scs = E.fault_free_batch(rng, n, quick, cls="pfi")
    for i, sc in enumerate(scs):
        if i % 4 == 0 and sc.d >= 2:
            sc.ignore_feature = 2
            sc.positional = False
        if i % 10 == 5:
            sc.names = "mixed"
    traces, kept, fails = E.validate(ctx, scs, wanted_trace, "fault-free PFI scenarios (incl. models ignoring feature 2)")
    ctx.count_clause("trace.pfi.*", sum(1 for t in traces for c in t["calls"] if c["pre"]["seen"] >= 1 and c["outcome"] == "ret"))
    if traces:
      ctx.sample({"direction": "B", "scenario": kept[0].key(),
                "call_2_losses": traces[0]["calls"][1]["losses"][:3] if len(traces[0]["calls"]) > 1 else None})
    nf = 0
    for sc in scs[: (25 if quick else 250)]:
        if sc.names == "mixed":
            continue
        probs, xe, xf = E.twin_float(ctx, sc, "pfi")
        nf += 1
        if probs:
            ctx.violation("float.pfi_values", E._config_key(sc), "; ".join(probs[:3]), {"scenario": sc.to_json()})
        # ignored feature: float importance must be (close to) zero as well
        if sc.ignore_feature and xf["raws"] and xf["env"]:
            nm = xf["env"]["names"][sc.ignore_feature - 1]
            v = xf["raws"][-1]["imp"].get(nm, 0.0)
            # the tolerance follows the magnitude of the losses of the run (models / losses come in several scales)
            if abs(float(v)) > 1e-9 * (1.0 + float(xf.get("max_loss", 0.0))):
                ctx.violation("float.ignored_feature_zero", E._config_key(sc), "importance of ignored feature = %r" % v,
                              {"scenario": sc.to_json()})
    ctx.add_stage("float twin runs vs exact runs (importance, variance)", "float_twin", scenarios=nf)
    ctx.evaluations += nf
    E.self_test(ctx, [s for s in scs if s.names != "mixed"][:3])
    ctx.assume("closed form (running statistic) is established at the specification level (RunningStatistic) and "
               "the implementation is bound to the specification's single step from every logged pre-state")
    return ctx.finish()


def replay(path, tier, seed):
    ctx = core.Ctx(PID, tier, seed)
    X.replay_file(ctx, path, lambda c: wanted_replay(c) or c.startswith("trace.pfi.") or c.startswith("trace.first."))
    return ctx.finish()
