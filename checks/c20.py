"""C20 - float results stay close to exact arithmetic (reduced scope: offset-ill-conditioned short streams)."""
import random
from fractions import Fraction as F

from harness import core, tlc, tracecheck, gen_c20 as G20, gen_explainer as G, engine_explainer as E

PID = "C20"


def batch(rng, n_streams, factory, es_factory):
    evs = []
    for i in range(n_streams):
        e = rng.choice([29, 30])
        n = rng.choice([2, 3, 5, 7, 8, 11, 16, 23, 32])
        k = rng.choice([1, 2, 3])
        ordering = ["random", "sorted", "alternating", "jump", "constant"][i % 5]
        scale_exp = rng.randrange(-57, -2)
        evs.append(G20.record(factory, es_factory, e, scale_exp, G20.make_deltas(rng, n, ordering), k))
    return evs


def run(tier, seed):
    from ixai.utils.tracker import WelfordTracker, ExponentialSmoothingTracker
    ctx = core.Ctx(PID, tier, seed)
    quick = tier == "quick"
    rng = random.Random(seed)
    # the exact shift / scale lemmas the bound clauses rest on
    r = tlc.require_ok(tlc.run("MC_Trackers", "MC_Trackers_5" if quick else "MC_Trackers_6", tag="c20mc"), "MC_Trackers")
    if r.status != "ok":
        raise tlc.TLCError("tracker specification violates %s" % r.violated)
    ctx.add_tlc("MC_Trackers: ShiftMean ShiftVar ShiftES ScaleLaws (exact, all short streams)", r)
    n_streams = 600 if quick else 6000
    evs = batch(rng, n_streams, WelfordTracker, lambda a: ExponentialSmoothingTracker(alpha=a))
    per = 200
    traces = [{"ev": evs[i:i + per]} for i in range(0, len(evs), per)]
    fails, res = tracecheck.validate("Trace_C20", traces, lambda t: len(t["ev"]), tag="c20tr")
    ctx.add_tlc("trace validation Trace_C20: bounds (C=8) on mean, variance (kappa-relative), smoothing; finiteness", res,
                kind="trace_validation", streams=len(evs))
    ctx.traces += len(evs)
    ctx.evaluations += len(evs)
    ctx.count_clause("float.*", len(evs))
    for ev in evs:
        ctx.nontrivial((ev["e"], ev["scale_exp"], ev["k"], str(ev["deltas"])))
    for (clause, tid, l) in fails:
        ev = traces[tid]["ev"][l - 1]
        ctx.violation("trace." + clause, "e=%d n=%d k=%d" % (ev["e"], len(ev["deltas"]), ev["k"]),
                      "stream s*(2^%d + delta), s=2^%d, delta=%s: double results re-represented as mean_k=%s vq=%s ip=%s fq=%s violate "
                      "the bound" % (ev["e"], ev["scale_exp"], ev["deltas"], ev["mean_k"], ev["vq"], ev["ip"], ev["fq"]), ev)
    ctx.sample({"stream": evs[3]})
    # negative control: the textbook variance formula on the same family must be rejected
    nc = batch(random.Random(seed + 1), 100, G20.Textbook, None)
    f2, _ = tracecheck.validate("Trace_C20", [{"ev": nc}], lambda t: len(t["ev"]), tag="c20neg", workers=2)
    nrej = len({l for (c, t, l) in f2 if c == "float.welford_variance"})
    if nrej < 50:
        raise tlc.TLCError("negative control: the textbook variance formula was rejected on only %d of 100 streams" % nrej)
    ctx.add_stage("negative control: textbook E[x^2]-E[x]^2 rejected on %d of 100 streams" % nrej, "negative_control", rejected=nrej)
    # explainers driven by such loss values: all intermediate doubles are exact, so the float run must pass the exact validation
    scs = []
    for i in range(30 if quick else 300):
        d = rng.choice([1, 2, 3])
        stream = [([F(rng.randrange(-3, 4), rng.choice([1, 2])) for _ in range(d)], rng.randrange(0, 3),
                   rng.choice([None, None, 1, 2, 4]), True) for _ in range(rng.choice([4, 8]))]
        scs.append(G.Scenario(cls=rng.choice(["sage", "pfi"]), d=d, names="idx", n_inner=rng.choice([1, 2, 4]), dynamic=True, alpha=F(1, 2),
                              storage=("interval", rng.choice([1, 2, 4])), imputer="joint", nlab=1, tables="spec:scalar", stream=stream,
                              numeric="float", loss_offset=2 ** 30, seed=rng.randrange(2 ** 31)))
    traces2, kept, fails2 = E.validate(ctx, scs, lambda clause, t, c: clause == "efficiency" or clause.split(".")[0] in ("sage", "pfi"),
                                       "float explainer runs with losses 2^30 + delta (exact doubles) validated exactly")
    # long streams (the bounded TLC clauses above stop at n = 32): the property's three bounds evaluated in exact rational
    # arithmetic on streams of 10^3 .. 10^5 values, magnitudes 1e-8 .. 1e8, offsets up to 1e9 times the spread, five orderings
    # (float-level check: C = 4 against a measured worst case of 0.03 units on the unchanged code)
    import math
    from fractions import Fraction
    u = 2.0 ** -53
    CL = 4
    nlong = 0
    for n in ((1000, 3000) if quick else (1000, 10 ** 4, 10 ** 5, 10 ** 6)):
        for name in ("random", "sorted", "alternating", "jump", "offset9"):
            for mag in ((1e-8, 1.0, 1e8) if n < 10 ** 6 else (1.0,)):
                spread = [rng.uniform(-1, 1) for _ in range(n)]
                off = 1e9 if name == "offset9" else 10.0
                vals = [mag * (off + s_) for s_ in spread]
                if name == "sorted":
                    vals.sort()
                elif name == "alternating":
                    vals = [v if i % 2 else -v for i, v in enumerate(vals)]
                elif name == "jump":
                    vals = [mag * off] * (n // 2) + vals[n // 2:]
                w, e = WelfordTracker(), ExponentialSmoothingTracker(alpha=2.0 ** -10)
                # exact reference in fixed point (unit 2^-1200: every finite double is an integer multiple); the smoothing
                # recursion is floored to that unit in every step (absolute error < n * 2^-1200)
                SH = 1200
                Si = S2i = esi = 0
                for v in vals:
                    w.update(v)
                    e.update(v)
                    num, den = v.as_integer_ratio()
                    vi = (num << SH) // den
                    Si += vi
                    S2i += vi * vi
                    esi = (1023 * esi + vi) >> 10
                unit = Fraction(1, 1 << SH)
                mean, mx = Fraction(Si, n) * unit, max(abs(v) for v in vals)
                var = (Fraction(S2i, n) - Fraction(Si, n) ** 2) * unit * unit
                es = esi * unit
                gm, gv, gs, ge = float(w.mean), float(w.var), float(w.std), float(e.get())
                probs = []
                if not all(map(math.isfinite, (gm, gv, gs, ge))):
                    probs.append("non-finite result %r" % ((gm, gv, gs, ge),))
                else:
                    if abs(Fraction(gm) - mean) > Fraction(CL * n * u * mx):
                        probs.append("mean %r vs exact %r, bound %.3g" % (gm, float(mean), CL * n * u * mx))
                    if var > 0:
                        kappa = math.sqrt(1 + float(mean * mean / var))
                        if abs(Fraction(gv) - var) > var * Fraction(CL * n * u * kappa):
                            probs.append("variance %r vs exact %r, relative bound %.3g" % (gv, float(var), CL * n * u * kappa))
                    elif gv != 0:
                        probs.append("variance %r of a constant stream" % gv)
                    if abs(Fraction(ge) - es) > Fraction(CL * u * mx * 1024):
                        probs.append("smoothed value %r vs exact %r, bound %.3g" % (ge, float(es), CL * u * mx * 1024))
                nlong += 1
                ctx.count_clause("float.long_stream")
                for pmsg in probs[:1]:
                    ctx.violation("float.long_stream", "n=%d ordering=%s magnitude=%g" % (n, name, mag), pmsg, {"n": n, "ordering": name, "mag": mag})
    ctx.add_stage("long float streams against exact rational arithmetic (Welford mean / variance, smoothing)", "float_twin", streams=nlong)
    ctx.evaluations += nlong
    # the third tracker: a sliding window on ill-conditioned streams keeps nothing of the values that left it - its mean is
    # within a small multiple of k*eps*max|v in the window| of the exact mean of the last k values (float-level check; the
    # window semantics themselves are C11's)
    from ixai.utils.tracker import SlidingWindowTracker
    eps = 2.0 ** -52
    nsw = 0
    for k in (1, 3, 4, 50):
        for name, gen in (("spike", lambda i: 1e8 if i % 97 == 5 else 1e-8 * (1 + i % 7)),
                          ("offset", lambda i: 1e9 + (0.5 if i % 2 else -0.5)),
                          ("jump", lambda i: 1e8 if i < 300 else 1e-8 * (1 + i % 3))):
            n = 600 if quick else 20000
            t = SlidingWindowTracker(k)
            vals = []
            worst = None
            for i in range(n):
                v = gen(i)
                vals.append(v)
                t.update(v)
                if i % 7 == 0 or i == n - 1:
                    win = vals[-k:]
                    exact = sum(F(w) for w in win) / len(win)
                    err = abs(F(float(t.mean)) - exact)
                    bound = F(16 * len(win) * eps * max(abs(w) for w in win))
                    if err > bound and worst is None:
                        worst = (i + 1, float(t.mean), float(exact), float(bound))
            nsw += 1
            ctx.count_clause("float.sliding_window_mean")
            if worst:
                ctx.violation("float.sliding_window_mean", "k=%d stream=%s" % (k, name), "after %d values the reported mean %r differs from "
                              "the exact mean of the window %r by more than 16*k*eps*max|v| = %.3g" % worst, {"k": k, "stream": name})
    ctx.add_stage("SlidingWindowTracker mean on spike / offset / jump streams against the exact window mean", "float_twin", runs=nsw)
    ctx.assume("the TLC clauses cover kappa-ill-conditioned streams of n <= 32 values, magnitudes 2^-28..2^27, five orderings (TLC has "
               "no floats and 32-bit integers); streams of 10^3..10^5 values are compared with exact rational arithmetic at the "
               "float level (C = 4), 10^6 values at magnitude 1 in the thorough tier")
    ctx.assume("C = 8 against a measured worst case of 0.25 (Welford) / 0.67 (smoothing) units")
    return ctx.finish()
