"""C10 - Welford and exponential-smoothing trackers equal their closed forms always."""
import copy
import math
import random
from fractions import Fraction as F

from harness import core, tlc, tracecheck, gen_trackers
from harness.fieldp import qpair

PID = "C10"


def _replay_state(st, W, E):
    """Direction A: run the stream of one specification state through the real trackers."""
    import numpy as np
    hist = [qpair(v) for v in st["h"]]
    alpha = qpair(st["a"])
    problems = []
    want_w = (st["w"]["n"], qpair(st["w"]["val"]), qpair(st["wvar"]))
    want_e = (st["e"]["n"], qpair(st["e"]["val"]))
    # exact
    w, e = W(), E(alpha=alpha)
    for v in hist:
        w.update(v)
        e.update(v)
        # accessors are read after every update: they must be pure functions of the state (no stale caches)
        sd, vr = float(w.std), float(w.var)
        if abs(sd * sd - vr) > 1e-9 * (1 + vr) or F(w.mean) != F(w.get()) or F(e.get()) != F(e.tracked_value):
            problems.append(("welford.accessors", (sd, vr, str(w.mean), str(w.get())), "std^2 = var, mean = get() after every update"))
            break
    if (w.N, F(w.get()), F(w.var)) != want_w or F(w.mean) != want_w[1]:
        problems.append(("welford.exact", (w.N, str(w.get()), str(w.var)), tuple(map(str, want_w))))
    if (e.N, F(e.get())) != want_e:
        problems.append(("es.exact", (e.N, str(e.get())), tuple(map(str, want_e))))
    # floats and numpy scalars
    for conv, name in ((float, "float"), (np.float64, "np.float64"), (int, "int")):
        if conv is int and any(v.denominator != 1 for v in hist):
            continue
        w, e = W(), E(alpha=float(alpha))
        for v in hist:
            w.update(conv(v))
            e.update(conv(v))
            float(w.std), float(w.var), w.mean, w.get(), e.get()      # read mid-stream as well
        tol = 1e-12 * (1 + sum(abs(float(v)) for v in hist)) * (1 + len(hist))
        tol2 = 1e-12 * (1 + sum(float(v) ** 2 for v in hist)) * (1 + len(hist))
        ok = (w.N == want_w[0] and abs(float(w.get()) - float(want_w[1])) <= tol and
              abs(float(w.mean) - float(want_w[1])) <= tol and
              abs(float(w.var) - float(want_w[2])) <= tol2 and
              abs(float(w.std) ** 2 - float(want_w[2])) <= 4 * tol2 + 1e-12 and
              math.isfinite(float(w.var)) and math.isfinite(float(w.std)))
        if not ok:
            problems.append(("welford." + name, (w.N, float(w.get()), float(w.var), float(w.std)),
                             tuple(map(float, want_w))))
        if not (e.N == want_e[0] and abs(float(e.get()) - float(want_e[1])) <= tol):
            problems.append(("es." + name, (e.N, float(e.get())), tuple(map(float, want_e))))
    # magnitudes: the same stream scaled by a power of two (exact in binary floating point) gives the scaled results,
    # through every accessor - tiny values are values, not noise
    for sc in (2.0 ** -70, 2.0 ** -33, 2.0 ** 45):
        # (alpha passed by position; as np.float64, and as the int 1 where it is one)
        w, e = W(), E(1 if alpha == 1 else np.float64(float(alpha)) if sc < 1e-15 else float(alpha))
        for v in hist:
            w.update(float(v) * sc)
            e.update(float(v) * sc)
        tol = 1e-12 * (1 + sum(abs(float(v)) for v in hist)) * (1 + len(hist)) * sc
        tol2 = 1e-12 * (1 + sum(float(v) ** 2 for v in hist)) * (1 + len(hist)) * sc * sc
        got = (float(w.get()), float(w()), float(w.mean), float(w.var), float(e.get()), float(e()))
        wantv = (float(want_w[1]) * sc, float(want_w[1]) * sc, float(want_w[1]) * sc, float(want_w[2]) * sc * sc,
                 float(want_e[1]) * sc, float(want_e[1]) * sc)
        tols = (tol, tol, tol, tol2, tol, tol)
        bad = [i for i in range(6) if not (math.isfinite(got[i]) and abs(got[i] - wantv[i]) <= tols[i])]
        if bad:
            names = ("welford.get()", "welford()", "welford.mean", "welford.var", "es.get()", "es()")
            problems.append(("scaled.%g" % sc, {names[i]: got[i] for i in bad}, {names[i]: wantv[i] for i in bad}))
    return problems


def run(tier, seed):
    from ixai.utils.tracker import WelfordTracker as W, ExponentialSmoothingTracker as E
    ctx = core.Ctx(PID, tier, seed)
    quick = tier == "quick"
    rng = random.Random(seed)

    # 1. the specification's own properties, exhaustively for small constants
    n = 5 if quick else 7
    r = tlc.require_ok(tlc.run("MC_Trackers", "MC_Trackers_%d" % n, coverage=True, tag="c10mc"), "MC_Trackers")
    ctx.add_tlc("MC_Trackers(MaxLen=%d): WelfordClosed ESClosed MeanBetweenMinMax ESInHull VarNonNeg Linear "
                "Shift*/ScaleLaws" % n, r)
    if r.status != "ok":
        raise tlc.TLCError("the tracker specification violates its own invariant %s\n%s" % (r.violated, r.counterexample))
    ctx.exhaustive = True

    # 2. direction A: every specification state (= stream prefix) replayed into the real classes
    m = 4 if quick else 6
    r = tlc.require_ok(tlc.run("MC_TrackersEmit", "MC_TrackersEmit_%d" % m, workers=1, tag="c10emit"), "emit")
    states = r.json_prints()
    if len(states) != r.distinct:
        raise tlc.TLCError("exported %d states, TLC found %d" % (len(states), r.distinct))
    ctx.add_tlc("behaviour export MC_TrackersEmit(MaxLen=%d)" % m, r, kind="behaviour_export")
    nrep = 0
    for st in states:
        probs = _replay_state(st, W, E)
        nrep += 1
        ctx.count_clause("replay.closed_form")
        if len(st["h"]) >= 2:
            ctx.nontrivial(("A", str(st["h"]), str(st["a"])))
        for (clause, got, want) in probs:
            ctx.violation("replay." + clause, "stream=%s alpha=%s" % (st["h"], st["a"]),
                          "implementation %s, specification %s" % (got, want), st)
    ctx.traces += nrep
    ctx.evaluations += nrep
    ctx.add_stage("spec->code replay (Fraction, float, np.float64, int)", "replay", behaviours=nrep)
    ctx.sample({"direction": "A", "state": states[len(states) // 2]})

    # 3. direction B: generic transitions of the real code, validated by TLC in GF(p)
    nt, ln = (60, 40) if quick else (600, 80)
    traces = gen_trackers.base_traces(rng, nt, ln) + gen_trackers.base_traces(rng, 4 if quick else 40, 200 if quick else 600)
    fails, res = tracecheck.validate("Trace_Trackers", traces, lambda t: len(t["ev"]), tag="c10tr")
    ctx.add_tlc("trace validation Trace_Trackers (GF(p))", res, kind="trace_validation", traces=len(traces),
                events=sum(len(t["ev"]) for t in traces))
    ctx.traces += len(traces)
    ctx.evaluations += sum(len(t["ev"]) for t in traces)
    for t in traces:
        ctx.nontrivial(("B", t["kind"], t["meta"]["alpha"], t["meta"]["style"], t["ev"][-1]["post"][1]))
    ctx.count_clause("trace.trk.*", sum(len(t["ev"]) for t in traces))
    for (clause, tid, l) in fails:
        ctx.violation("trace." + clause, "kind=%s" % traces[tid]["kind"],
                      "event %d of trace %d: the logged post-state is not the specification's successor of the "
                      "logged pre-state" % (l, tid), {"trace": traces[tid], "event": l})
    for t in traces:
        for e in t["ev"]:
            if not e["returns_self"]:
                ctx.violation("trace.update_returns_self", t["kind"], "update() did not return the tracker", None)
    ctx.sample({"direction": "B", "kind": traces[0]["kind"], "first_events": traces[0]["ev"][:2]})

    # 4. binding self-test: one corrupted field must be rejected
    bad = copy.deepcopy(traces[:2])
    bad[0]["ev"][3]["post"][2] = (bad[0]["ev"][3]["post"][2] + 1) % 46337
    bad[1]["ev"][2]["post"][1] = (bad[1]["ev"][2]["post"][1] + 7) % 46337
    f2, _ = tracecheck.validate("Trace_Trackers", bad, lambda t: len(t["ev"]), tag="c10self", workers=2)
    got = {(c, t) for (c, t, l) in f2}
    if not ({("trk.sum_squares", 0), ("trk.value", 1)} <= got):
        raise tlc.TLCError("binding self-test failed: corrupted trace fields were not rejected: %r" % (got,))
    ctx.add_stage("self-test: corrupted sum_squares / value rejected", "selftest", rejected=len(f2))

    ctx.assume("the closed forms are proved for all streams over {-2,-1,0,1,3} up to the model's length bound; "
               "longer streams rest on the recurrence being validated step-wise (GF(p) identity testing, error "
               "probability <= 3/46337 per step) plus induction over the stream length at the specification level")
    ctx.assume("float comparisons use tolerance 1e-12 * (1 + sum|v|) * (n + 1)")
    return ctx.finish()
