"""C17 - a failing callback leaves the explainer's estimates untouched."""
import copy
import random

from harness import core, engine_explainer as E, gen_explainer as G, engine_batch as EB, gen_batch as GB
from checks import _explainer as X

PID = "C17"


def wanted_replay(clause):
    return clause.startswith("replay.fault_atomic") or clause in ("replay.outcome", "replay.efficiency")


def wanted_trace(clause, trace, call):
    return clause.startswith("fault.") or clause == "efficiency"


def fault_scenarios(rng, nbase, quick, pairs=False):
    """every (call, callback ordinal) of short random scenarios as a single injected fault;
    the stream continues after the failure"""
    out = []
    for _ in range(nbase):
        sc = G.random_scenario(rng, quickness=1)
        sc.stream = sc.stream[: rng.choice([3, 4, 5])]
        counts, _ = E.callback_counts(sc)
        positions = [(ci, k) for ci, n in enumerate(counts) for k in range(1, n + 1)]
        if quick and len(positions) > 40:
            positions = rng.sample(positions, 40)
        for (ci, k) in positions:
            s2 = copy.copy(sc)
            s2.faults = {ci: k}
            s2.fault_type = len(out)        # the exception classes of proxies.BOOMS in turn
            out.append(s2)
        # ... and faults in the other public methods of the imputer / storage objects (get_data, hooks): the first three
        # invocations inside a call, whatever they are
        aux = [(ci, k) for ci in range(len(counts)) for k in (1, 2, 3)]
        for (ci, k) in (rng.sample(aux, 6) if quick and len(aux) > 6 else aux):
            s2 = copy.copy(sc)
            s2.aux_faults = {ci: k}
            s2.fault_type = len(out)
            out.append(s2)
        if pairs:
            for _ in range(10):
                (c1, k1), (c2, k2) = rng.sample(positions, 2) if len(positions) >= 2 else (positions[0], positions[0])
                s2 = copy.copy(sc)
                s2.faults = {c1: k1, c2: k2}
                out.append(s2)
    return out


def batch_fault_scenarios(rng, nbase, quick):
    """BatchSage / IntervalSage: every (call, callback) position of short scenarios as an injected fault"""
    out = []
    for i in range(nbase):
        sc = EB.random_batch(rng, quick) if i % 2 == 0 else EB.random_interval(rng, quick)
        sc.rows = sc.rows[:4]
        sc.calls = sc.calls[:4]
        dry = GB.run(sc)
        positions = [(ci, k) for ci, c in enumerate(dry["calls"]) for k in range(1, c["nmodel"] + c["nloss"] + 1 + 8)]
        positions = [p for p in positions if p[1] <= 60]
        if len(positions) > (12 if quick else 40):
            positions = rng.sample(positions, 12 if quick else 40)
        for (ci, k) in positions:
            s2 = copy.copy(sc)
            s2.fault = (ci, k)
            s2.fault_type = len(out)
            out.append(s2)
    return out


def run(tier, seed):
    ctx = core.Ctx(PID, tier, seed)
    quick = tier == "quick"
    rng = random.Random(seed)
    X.mc_stage(ctx, ["sage_a", "pfi_a"] if quick else ["sage_a", "pfi_a", "sage_b", "sage_c", "sage_d", "pfi_b", "pfi_d"],
               "FaultAtomic + Efficiency in every state reachable after faults at any callback step",
               negatives=[("sage_neg", "FaultAtomic"), ("pfi_neg", "FaultAtomic")])
    # the same statement as a refinement: under faults at every callback the micro-step specification implements the
    # atomic one - a call that raises is a stuttering step of estimates and storage
    X.refine_stage(ctx, ["sage_a", "pfi_a"] if quick else ["sage_a", "pfi_a", "sage_b", "sage_c", "sage_d", "sage_e", "pfi_b",
                                                            "pfi_c", "pfi_d", "sage_o", "pfi_o", "sage_def", "pfi_def"],
                   negatives=["sage_neg", "pfi_neg"], exists_form=() if quick else ("sage_a", "pfi_a"))
    X.skeleton_stage(ctx, ["sage_a", "pfi_a"] if quick else ["sage_a", "pfi_a", "sage_b", "sage_c", "sage_d", "pfi_b", "pfi_d", "sage_o",
                                                             "pfi_o", "sage_def", "pfi_def"], negatives=["sage_neg"] if quick else ["sage_neg", "pfi_neg"])
    X.replay_stage(ctx, ["sage_fq", "pfi_fq"] if quick else ["sage_fq", "pfi_fq", "sage_fa", "pfi_fa", "sage_fprod", "sage_ff", "sage_fdef"],
                   wanted_replay, limit=2500 if quick else 12000, rng=rng)
    scs = fault_scenarios(rng, 8 if quick else 60, quick, pairs=not quick)
    traces, kept, fails = E.validate(ctx, scs, wanted_trace, "single%s injected faults at enumerated (call, callback) positions; "
                                     "stream continues" % ("" if quick else " and double"))
    nf = 0
    for t, sc in zip(traces, kept):
        for i, c in enumerate(t["calls"]):
            if c["fault"]:
                nf += 1
                if c["outcome"] == "ret":
                    ctx.violation("trace.fault.propagates", E._config_key(sc),
                                  "callback #%d of call %d raised but explain_one returned normally" % (c["fault"], i + 1),
                                  {"scenario": sc.to_json(), "call": i + 1})
    ctx.count_clause("trace.fault.atomic", nf)
    ctx.add_stage("fault points injected into the real explainers", "fault_enumeration", fault_points=nf, runs=len(scs))
    ex = next((t for t in traces if any(c["fault"] for c in t["calls"])), traces[0] if traces else {"key": "", "calls": []})
    ctx.sample({"direction": "B", "scenario": ex["key"],
                "faulted_call": next(({k: c[k] for k in ("fault", "outcome", "order", "pre", "post")} for c in ex["calls"] if c["fault"]), None)})
    # BatchSage at the grain of its callbacks: TLC model + negative control + every behaviour replayed
    from harness import tlc as _tlc
    for cfg in (["q"] if quick else ["q", "t"]):
        rb = _tlc.require_ok(_tlc.run("BatchSage", "BatchSage_" + cfg, tag="c17bs", timeout=1500), cfg)
        if rb.status != "ok":
            raise _tlc.TLCError("BatchSage(%s) violates %s" % (cfg, rb.violated))
        ctx.add_tlc("BatchSage_%s: FaultAtomic BatchEfficiency ModelBudget (fault at every callback of explain_many / _original)" % cfg, rb)
    rbn = _tlc.require_ok(_tlc.run("BatchSage", "BatchSage_neg", tag="c17bsn"), "neg")
    if rbn.status != "violation":
        raise _tlc.TLCError("negative control CommitInPlace not refuted")
    ctx.add_tlc("negative control CommitInPlace refuted (%s)" % rbn.violated, rbn, kind="negative_control")
    rbe = _tlc.require_ok(_tlc.run("BatchSage", "BatchSage_emit", workers=1, tag="c17bse"), "emit")
    brecs = rbe.json_prints()
    if quick and len(brecs) > 800:
        brecs = rng.sample(brecs, 800)
    ctx.add_tlc("behaviour export BatchSage_emit", rbe, kind="behaviour_export", behaviours=len(brecs))
    for rec in brecs:
        probs, _ = EB.replay_batch_fault_behaviour(rec, 2, 1)
        for (clause, detail) in probs:
            if clause == "replay.batch.not_followed":
                ctx.skip("batch behaviours the code could not follow (different random primitives)")
                continue
            if clause in ("replay.batch.fault_atomic", "replay.batch.outcome"):
                ctx.violation(clause, "mode=%s fault=%s" % (rec["mode"], rec["fault"]), detail, {"batch_fault_behaviour": rec})
        if rec["fault"]:
            ctx.nontrivial(("BA", str(rec["data"]), rec["mode"], rec["fault"]))
    ctx.traces += len(brecs)
    ctx.evaluations += len(brecs)
    ctx.count_clause("replay.batch.fault_atomic", sum(1 for r_ in brecs if r_["fault"]))
    bscs = batch_fault_scenarios(rng, 10 if quick else 80, quick)
    btr, bfails = EB.validate(ctx, bscs, lambda clause: clause.startswith("fault."), "BatchSage / IntervalSage with an injected fault at an "
                              "enumerated (call, callback) position")
    # ... and the explanations computed after a failed one are as right as any other (per-feature averages, efficiency)
    value_clauses = ("batch.per_feature", "batch.efficiency", "batch.mean_prediction", "batch.mean_then_loss", "batch.shape",
                     "batch.values_keyed_by_features", "batch.rows_explained", "interval.values_kept")
    for f in bfails:
        clause, tid, l = f[0], f[1], f[2]
        if clause in value_clauses and any(c["outcome"] == "exc" for c in btr[tid]["calls"][: l - 1]):
            ctx.violation("trace.fault.explanation_after_fault", "%s/%s" % (bscs[tid].cls, bscs[tid].mode),
                          "call %d of scenario [%s] (after a failed call): clause %s does not hold" % (l, bscs[tid].key(), clause),
                          {"batch_scenario": bscs[tid].to_json(), "call": l})

    def after_fault(clause):
        return clause.startswith("float.batch.")
    after = [(t, sc) for t, sc in zip(btr, bscs) if any(c["outcome"] == "exc" for c in t["calls"][:-1])]
    if after:
        # float-level per-feature / efficiency check of every recomputed explanation in traces that contain a fault
        EB.float_checks(ctx, [t for t, _ in after], [sc for _, sc in after], after_fault)
    nbf = sum(1 for t in btr for c in t["calls"] if c["outcome"] == "exc")
    ctx.count_clause("trace.fault.atomic(batch)", nbf)
    for t, sc in zip(btr, bscs):
        for i, c in enumerate(t["calls"]):
            if c["fault"] and c["outcome"] == "ret" and c["nmodel"] + c["nloss"] >= c["fault"]:
                ctx.violation("trace.fault.propagates", "%s/%s" % (sc.cls, sc.mode), "callback #%d of call %d raised but the call returned normally"
                              % (c["fault"], i + 1), {"batch_scenario": sc.to_json(), "call": i + 1})
    ctx.add_stage("fault points injected into BatchSage / IntervalSage", "fault_enumeration", fault_points=nbf, runs=len(bscs))
    ctx.assume("whether a failed call counts as a seen sample is left open (the property speaks about the estimates)")
    return ctx.finish(level="model_checking")


def replay(path, tier, seed):
    ctx = core.Ctx(PID, tier, seed)
    X.replay_file(ctx, path, lambda c: wanted_replay(c) or c.startswith("trace.fault.") or c == "trace.efficiency")
    return ctx.finish()
