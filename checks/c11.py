"""C11 - SlidingWindowTracker reports statistics of exactly the last k values."""
import copy
import math
import random

from harness import apalache, tlaps, core, tlc, tracecheck

PID = "C11"


def _stats(vals):
    n = len(vals)
    mean = sum(vals) / n
    var = sum((v - mean) ** 2 for v in vals) / n
    return mean, var, math.sqrt(var)


def _drive(k, values, kconv=int, keyword=False):
    """Returns list of (mean, var, std, get, window or None) after each update, or raises.
    kconv: the type the window length is given in; keyword: SlidingWindowTracker(k=...)"""
    from ixai.utils.tracker import SlidingWindowTracker
    t = SlidingWindowTracker(k=kconv(k)) if keyword else SlidingWindowTracker(kconv(k))
    out = []
    for v in values:
        r = t.update(v)
        win = None
        buf = getattr(t, "sliding_window", None)
        if buf is not None:
            try:
                win = [float(x) for x in buf if not math.isnan(float(x))]
            except Exception:
                win = None
        out.append((t.mean, t.var, t.std, t.get(), win, r is t))
    return out


def _close(a, b, scale):
    return math.isfinite(a) and abs(a - b) <= 1e-9 * (1 + scale)


def run(tier, seed):
    ctx = core.Ctx(PID, tier, seed)
    quick = tier == "quick"
    rng = random.Random(seed)

    r = tlc.require_ok(tlc.run("MC_SlidingWindow", workers=1, coverage=True, tag="c11mc"), "MC_SlidingWindow")
    if r.status != "ok":
        raise tlc.TLCError("specification violates %s\n%s" % (r.violated, r.counterexample))
    ctx.add_tlc("MC_SlidingWindow(k<=5, n<=2k+3): WindowIsLastK", r)
    ctx.exhaustive = True
    states = r.json_prints()
    rn = tlc.require_ok(tlc.run("MC_SlidingWindow", "MC_SlidingWindow_neg", tag="c11neg"), "neg")
    if rn.status != "violation" or rn.violated != "WindowIsLastK":
        raise tlc.TLCError("negative control WrapBug was not refuted by TLC")
    ctx.add_tlc("negative control WrapBug refuted (WindowIsLastK)", rn, kind="negative_control")

    # streams of ANY length (window length <= 6): the ring-buffer invariant is inductive (Apalache), on a step that TLC
    # shows to be Trackers!SWUpd
    for cfg in (("k3",) if quick else ("k1", "k3", "k4")) + ("bug",):
        rr = tlc.require_ok(tlc.run("MC_SWIndTLC", "MC_SWIndTLC_" + cfg, tag="c11ind"), cfg)
        if rr.status != "ok":
            raise tlc.TLCError("SWInd(%s) violates %s" % (cfg, rr.violated))
        ctx.add_tlc("MC_SWIndTLC_%s: StepIsTrackers%s" % (cfg, "" if cfg == "bug" else " IndInv WindowIsLastK"), rr)
    tlaps.prove(ctx, "SWIndProof", "ring buffer: Init => Inv, Inv /\\ [Next]_vars => Inv', Inv => WindowIsLastK for every window length "
                "K >= 1 and every number of updates")
    apalache.inductive(ctx, "MC_SWInd", "CInitOK", "IndInit", "IndInv", "WindowIsLastK", "ring buffer, K in 1..6",
                       negative_cinit="CInitBug")
    # direction A: every (k, n) of the specification driven through the real class
    by = {}
    for st in states:
        by[(st["k"], st["n"])] = st["window"]
    nrep = 0
    for k in sorted({k for k, _ in by}):
        nmax = max(n for kk, n in by if kk == k)
        # (tiny / huge: the float stream scaled by a power of two - exact in binary floating point - must give the
        # scaled statistics; results are compared in units of that power)
        for name, f0, unit in (("int", lambda i: i, 1), ("float", lambda i: 0.25 * i - 100.0, 1.0), ("big", lambda i: 1e6 + i, 1.0),
                               ("tiny", lambda i: 0.25 * i - 1.0, 2.0 ** -70), ("huge", lambda i: 0.5 * i - 2.0, 2.0 ** 60),
                               # one huge value passing through a window of tiny ones (nothing of it may stay behind)
                               ("spike", lambda i: 1e8 if i == 2 else 1e-8 * i, 1.0)):
            f = (lambda i, f0=f0, unit=unit: f0(i) * unit)
            vals = [f(i) for i in range(1, nmax + 1)]
            key = "k=%d values=%s n<=%d" % (k, name, nmax)
            try:
                import numpy as np
                kconv = {"int": int, "float": np.int64, "big": np.int8, "tiny": np.uint8, "huge": np.int32, "spike": int}[name]
                obs = _drive(k, vals, kconv, keyword=(name in ("float", "tiny")))
            except Exception as e:
                ctx.violation("replay.sw.usable", "k=%d" % k, "SlidingWindowTracker(%d) cannot be constructed/used "
                              "on this NumPy: %s: %s" % (k, type(e).__name__, e), {"k": k, "values": vals})
                continue
            for n in range(1, nmax + 1):
                want_win = [f(i) for i in by[(k, n)]]
                mean, var, std = _stats([f0(i) for i in by[(k, n)]])
                gm, gv, gs, gg, gwin, rs = obs[n - 1]
                if any(not isinstance(v_, (int, float)) for v_ in (gm, gv, gs, gg)):
                    ctx.violation("replay.sw.stats", key, "after %d updates: mean/var/std/get = %r are not all numbers" % (n, (gm, gv, gs, gg)),
                                  {"k": k, "values": vals[:n]})
                    break
                gm, gv, gs, gg = gm / unit, gv / unit / unit, gs / unit, gg / unit
                sc = max(abs(f0(i)) for i in by[(k, n)]) ** 2
                nrep += 1
                ctx.count_clause("replay.sw.stats")
                ctx.nontrivial(("A", k, n, name))
                tv = 1e-7 * (1 + var) + 1e-15 * sc
                if not (_close(gm, mean, math.sqrt(sc)) and math.isfinite(gv) and abs(gv - var) <= tv and
                        math.isfinite(gs) and abs(gs * gs - var) <= 4 * tv and _close(gg, mean, math.sqrt(sc))):
                    ctx.violation("replay.sw.stats", key,
                                  "after %d updates: mean/var/std/get = %r, specification window %r gives %r" % (
                                      n, (gm, gv, gs, gg), want_win, (mean, var, std)),
                                  {"k": k, "values": vals[:n], "spec_window": want_win})
                    break
                if gwin is not None and sorted(gwin) != sorted(map(float, want_win)):
                    ctx.violation("replay.sw.window", key, "after %d updates the buffer holds %r, specification %r" % (
                        n, sorted(gwin), sorted(want_win)), {"k": k, "values": vals[:n]})
                    break
                if not rs:
                    ctx.violation("replay.sw.returns_self", key, "update() did not return the tracker", None)
                    break
    # the same windows when the tracker is not alone: several live trackers fed in lock step, and trackers owned by a
    # MultiValueTracker (one per key, created from one base tracker) - each reports the window of its own values
    from ixai.utils.tracker import SlidingWindowTracker, MultiValueTracker
    for k in sorted({k for k, _ in by}):
        nmax = max(n for kk, n in by if kk == k)
        streams = {"a": [float(i) for i in range(1, nmax + 1)], "b": [100.0 - 3 * i for i in range(1, nmax + 1)],
                   "c": [0.5 * i * i for i in range(1, nmax + 1)]}
        for owner in ("separate objects", "MultiValueTracker"):
            try:
                if owner == "separate objects":
                    trk = {key: SlidingWindowTracker(k) for key in streams}
                    mv = None
                else:
                    mv = MultiValueTracker(SlidingWindowTracker(k))
                for n in range(1, nmax + 1):
                    if mv is None:
                        for key in streams:
                            trk[key].update(streams[key][n - 1])
                        got = {key: (float(trk[key].mean), float(trk[key].var), float(trk[key].get())) for key in streams}
                    else:
                        mv.update({key: streams[key][n - 1] for key in streams})
                        vals = mv.get()
                        got = {key: (float(mv.tracked_value[key].mean), float(mv.tracked_value[key].var), float(vals[key])) for key in streams}
                    bad = None
                    for key in streams:
                        mean, var, _ = _stats([streams[key][i - 1] for i in by[(k, n)]])
                        gm, gv, gg = got[key]
                        sc = max(abs(v) for v in streams[key]) ** 2
                        if not (_close(gm, mean, math.sqrt(sc)) and abs(gv - var) <= 1e-7 * (1 + var) + 1e-15 * sc and _close(gg, mean, math.sqrt(sc))):
                            bad = (key, (gm, gv, gg), (mean, var))
                            break
                    nrep += 1
                    ctx.count_clause("replay.sw.not_alone")
                    if bad:
                        ctx.violation("replay.sw.not_alone", "k=%d owner=%s" % (k, owner), "after %d updates the tracker of stream %r reports "
                                      "mean/var/get %r, the window of its own values gives %r" % (n, bad[0], bad[1], bad[2]),
                                      {"k": k, "owner": owner, "n": n})
                        break
            except Exception as e:
                ctx.violation("replay.sw.not_alone", "k=%d owner=%s" % (k, owner), "%s: %s" % (type(e).__name__, str(e)[:200]), {"k": k})
    ctx.traces += len(by)
    ctx.evaluations += nrep
    ctx.add_stage("spec->code replay of all (k, n) states, 5 value encodings; trackers in company and owned by a MultiValueTracker",
                  "replay", comparisons=nrep)
    ctx.sample({"direction": "A", "spec_state": states[-1]})

    # direction B: random integer streams, TLC carries the specification's ring buffer
    nt = 40 if quick else 400
    traces = []
    for t in range(nt):
        k = rng.choice([1, 2, 3, 4, 5, 7, 8, 13])
        ln = rng.choice([k, k + 1, k + 2, 2 * k + 1, 3 * k + 2, 40 if quick else 120, 130 if quick else 500])
        vals = [rng.randrange(-1000, 1001) for _ in range(ln)]
        try:
            obs = _drive(k, vals)
        except Exception as e:
            ctx.violation("trace.sw.usable", "k=%d" % k, "%s: %s" % (type(e).__name__, e), {"k": k, "values": vals})
            continue
        ev = []
        okres = True
        for v, (gm, gv, gs, gg, gwin, rs) in zip(vals, obs):
            if any(not isinstance(v_, (int, float)) for v_ in (gm, gv, gs, gg)):
                ctx.violation("trace.sw.integral_stats", "k=%d" % k, "mean/var/std/get = %r are not all numbers" % ((gm, gv, gs, gg),),
                              {"k": k, "values": vals[:len(ev) + 1]})
                okres = False
                break
            cnt = len(gwin) if gwin is not None else min(len(ev) + 1, k)
            s = gm * cnt
            vn = gv * cnt * cnt
            if not (math.isfinite(s) and math.isfinite(vn) and abs(s - round(s)) < 1e-6 and abs(vn - round(vn)) < 1e-4
                    and abs(gs * gs - gv) <= 1e-9 * (1 + gv) and abs(gg - gm) <= 1e-12 * (1 + abs(gm))):
                ctx.violation("trace.sw.integral_stats", "k=%d" % k,
                              "statistics of an integer window are not integral/consistent: mean*cnt=%r var*cnt^2=%r "
                              "std=%r get=%r" % (s, vn, gs, gg), {"k": k, "values": vals[:len(ev) + 1]})
                okres = False
                break
            ev.append({"v": v, "cnt": cnt, "sum": int(round(s)), "varnum": int(round(vn)),
                       "haswin": gwin is not None, "win": [int(x) for x in gwin] if gwin is not None else []})
        if okres:
            traces.append({"k": k, "ev": ev})
    if traces:
        fails, res = tracecheck.validate("Trace_SlidingWindow", traces, lambda t: len(t["ev"]), tag="c11tr")
        nev = sum(len(t["ev"]) for t in traces)
        ctx.add_tlc("trace validation Trace_SlidingWindow", res, kind="trace_validation", traces=len(traces), events=nev)
        ctx.traces += len(traces)
        ctx.evaluations += nev
        ctx.count_clause("trace.sw.*", nev)
        for t in traces:
            ctx.nontrivial(("B", t["k"], len(t["ev"]), t["ev"][-1]["sum"]))
        firsts = {}
        for (clause, tid, l) in sorted(fails, key=lambda x: (x[1], x[2])):
            if tid in firsts:
                continue
            firsts[tid] = 1
            ctx.violation("trace." + clause, "k=%d" % traces[tid]["k"],
                          "event %d of trace %d (k=%d): reported statistics differ from the specification's window" % (
                              l, tid, traces[tid]["k"]),
                          {"k": traces[tid]["k"], "values": [e["v"] for e in traces[tid]["ev"][:l]]})
        ctx.sample({"direction": "B", "k": traces[0]["k"], "first_events": traces[0]["ev"][:3]})
        bad = copy.deepcopy(traces[:1])
        bad[0]["ev"][-1]["sum"] += 1
        f2, _ = tracecheck.validate("Trace_SlidingWindow", bad, lambda t: len(t["ev"]), tag="c11self", workers=2)
        if not any(c == "sw.mean" for (c, t, l) in f2):
            raise tlc.TLCError("binding self-test failed: corrupted mean not rejected")
        ctx.add_stage("self-test: corrupted mean rejected", "selftest", rejected=len(f2))
    ctx.assume("float statistics compared with tolerance 1e-9 * (1 + max|v|^2)")
    return ctx.finish()
