"""C18 - results are reproducible from the global random seeds."""
import json
import os
import random
import subprocess
import sys
import uuid

from harness.fieldp import NonFinite
from harness import core, tlc, tracecheck, engine_explainer as E, gen_storages as GS, gen_explainer as G
from checks import _explainer as X

PID = "C18"


def wanted_replay(clause):
    # with the RNG tape in script mode the run must be a function of (stream, tape): every choice of the behaviour has to
    # be requested from the global generators (kind, range), none may be left unconsumed, and the state must follow
    return clause == "replay.draw_range" or clause.startswith("replay.state.") or clause == "replay.storage"


def wanted_trace(clause, trace, call):
    return clause.startswith("draw.")


def two_process_experiment(ctx, seed, quick):
    work = os.path.join(tlc.WORK, "c18-" + uuid.uuid4().hex[:8])
    os.makedirs(work, exist_ok=True)
    env = dict(os.environ)
    env["PYTHONPATH"] = core.VERIF + ":" + core.REPO
    env["PYTHONHASHSEED"] = "0"
    n = 40 if quick else 150
    seeds = [seed % 1000 + 7] if quick else [seed % 1000 + 7, 12345, 3]
    procs = []
    for s in seeds:
        for variant in ("plain", "noisy", "plain2", "dupcopy", "dupsame"):
            out = os.path.join(work, "%s-%d.json" % (variant, s))
            procs.append((s, variant, out, subprocess.Popen(
                [sys.executable, "-m", "harness.repro_worker", "plain" if variant == "plain2" else variant, str(s), out, str(n)],
                cwd=core.VERIF, env=env, stdout=subprocess.PIPE, stderr=subprocess.STDOUT)))
    res = {}
    for s, variant, out, p in procs:
        o, _ = p.communicate(timeout=1500)
        if p.returncode != 0 or not os.path.exists(out):
            raise tlc.TLCError("reproducibility worker failed: %s" % o.decode("utf-8", "replace")[-800:])
        res[(s, variant)] = json.load(open(out))
    ncmp = 0
    for s in seeds:
        for variant in ("noisy", "plain2", "dupsame"):
            base = res[(s, "dupcopy" if variant == "dupsame" else "plain")]
            other = res[(s, variant)]
            for k in base:
                ncmp += 1
                ctx.nontrivial(("P", s, variant, k))
                if isinstance(base[k], str):
                    continue          # the configuration raised (identically) - judged by C15
                if base[k] != other[k]:
                    if isinstance(other[k], str):
                        first = other[k]
                    else:
                        i = next(i for i, (a, b) in enumerate(zip(base[k], other[k])) if a != b)
                        first = "first difference at call %d: %s vs %s" % (i + 1, json.dumps(base[k][i])[:200], json.dumps(other[k][i])[:200])
                    ctx.violation("repro.two_processes", "config=%s" % k,
                                  "seed %d, process '%s' (%s) vs plain process: %s" % (
                                      s, variant, {"noisy": "decoy objects, junk allocations, a delay before seeding and a wall clock that jumps an hour per reading",
                                                   "plain2": "second identical run",
                                                   "dupsame": "every observation delivered twice as the SAME dict object; reference: twice as equal copies"}[variant], first),
                                  {"config": k, "seed": s, "variant": variant, "calls": n})
    ctx.sample({"experiment": "two fresh interpreter processes", "configs": sorted(base)[:6], "one_result": {k: base[k][-1] for k in list(base)[:1] if not isinstance(base[k], str)}})
    ctx.add_stage("literal experiment: %d seeds x {identical second process, process with decoy objects / junk / delay / jumping wall clock before "
                  "seeding, same-object vs equal-copy delivery of repeated observations} x %d explainer-storage-imputer configurations, %d calls each, compared bit for bit after every call"
                  % (len(seeds), len(base), n), "two_process", comparisons=ncmp)
    ctx.traces += ncmp
    ctx.evaluations += ncmp * n
    ctx.count_clause("repro.two_processes", ncmp)
    for f in os.listdir(work):
        os.remove(os.path.join(work, f))
    os.rmdir(work)


def _dirty_heap(value):
    """fill and free small NumPy buffers, so that memory handed out next (np.empty, uninitialised tails of reused
    buffers) holds other garbage in the second replay than in the first: results must not depend on it"""
    import numpy as np
    junk = [np.full(k, value) for k in range(1, 40) for _ in range(4)]
    del junk


def same_process_twice(ctx, rng, quick):
    """the same seeded scenario twice in one process, other objects used in between"""
    n = 0
    for i in range(25 if quick else 250):
        sc = G.random_scenario(rng, quickness=1)
        sc.numeric = "float"
        sc.companion = False
        try:
            _dirty_heap(7.5e300)
            t1, x1 = G.run_scenario(sc, keep_raw=True)
            G.run_scenario(G.random_scenario(rng, quickness=1))        # something else in between
            _dirty_heap(float("nan"))
            t2, x2 = G.run_scenario(sc, keep_raw=True)
        except (G.ConstructError, G.NotObservable):
            continue
        except NonFinite as e:
            n += 1
            ctx.violation("repro.same_process", E._config_key(sc), "a seeded replay of [%s] (finite inputs) reached the non-finite "
                          "estimate %s - the result depends on what the process did before" % (sc.key(), e), {"scenario": sc.to_json()})
            continue
        n += 1
        a = [(str(r["imp"]), str(r["var"]), str(r["ml"]), str(r["mo"])) for r in x1["raws"]]
        b = [(str(r["imp"]), str(r["var"]), str(r["ml"]), str(r["mo"])) for r in x2["raws"]]
        ra = [c["rows"] for c in t1["calls"]]
        rb = [c["rows"] for c in t2["calls"]]
        if a != b or ra != rb:
            i0 = next((j for j, (p, q) in enumerate(zip(a, b)) if p != q), -1)
            ctx.violation("repro.same_process", E._config_key(sc), "two seeded replays of [%s] differ (first at call %d)" % (sc.key(), i0 + 1),
                          {"scenario": sc.to_json()})
    ctx.add_stage("same scenario twice in one process (other runs in between), compared exactly", "replay_twice", scenarios=n)
    ctx.evaluations += n
    ctx.count_clause("repro.same_process", n)


def no_reseed_stage(ctx, seed):
    """library code may draw from the global generators but must never seed them or set their state"""
    import random as _random
    import numpy as _np
    from harness.proxies import Tape
    from harness import repro_worker as RW
    n = 0
    _random.seed(seed)
    _np.random.seed(seed % 2 ** 32)
    for cfg in RW.matrix():
        with Tape(mode="log") as tape:
            state_before = _random.getstate()
            try:
                # run_one seeds the generators itself first (harness code): those two calls are expected
                RW.run_one(cfg, seed % 1000 + 3, 6)
            except Exception:
                pass
        n += 1
        lib = tape.reseeds[2:] if tape.reseeds[:2] == ["random.seed", "np.random.seed"] else tape.reseeds
        if lib:
            ctx.violation("repro.no_reseed", "config=%s" % "|".join(map(str, cfg)),
                          "library code called %s: constructing or using library objects must only *draw* from the global "
                          "generators, never re-seed them" % sorted(set(lib)), {"config": list(cfg)})
    ctx.add_stage("no library object construction / call re-seeds or sets the state of the global generators", "tape", configs=n)
    ctx.count_clause("repro.no_reseed", n)
    ctx.evaluations += n


def run(tier, seed):
    ctx = core.Ctx(PID, tier, seed)
    quick = tier == "quick"
    rng = random.Random(seed)
    # the specification's behaviours are functions of (stream, tape): exported by TLC, replayed with the tape scripted
    X.replay_stage(ctx, ["sage_q", "pfi_q"] if quick else ["sage_q", "pfi_q", "sage_a", "sage_prod", "pfi_prod"], wanted_replay,
                   limit=None if quick else 3000, rng=rng)
    r = tlc.require_ok(tlc.run("MC_IncExplainer", "MC_IncExplainer_sage_a", tag="c18mc"), "sage_a")
    if r.status != "ok":
        raise tlc.TLCError("IncExplainer violates %s" % r.violated)
    ctx.add_tlc("MC_IncExplainer_sage_a: every nondeterministic choice of the specification is an explicit draw action "
                "(DrawPerm, ImputeDraw, StoreUpdate choice)", r)
    # B: every observable choice of recorded runs is explained by a logged draw from the global generators
    scs = E.fault_free_batch(rng, 60 if quick else 600, quick)
    traces, kept, fails = E.validate(ctx, scs, wanted_trace, "draw clauses: order = logged permutation draw, background rows = logged uniform draws over the whole storage")
    ctx.count_clause("trace.draw.*", sum(len(t["calls"]) for t in traces))
    st_traces = []
    for i in range(30 if quick else 300):
        kind = ["uniform", "geometric"][i % 2]
        cap = rng.choice([1, 2, 3, 5])
        st_traces.append(GS.record_run(kind, cap, rng.random() < 0.5, rng.choice([None, 0.5, 1.0]) if kind == "geometric" else None,
                                       rng.choice([2 * cap + 3, 60]), rng.randrange(2 ** 31)))
    f2, res = tracecheck.validate("Trace_Storages", st_traces, lambda t: len(t["ev"]), tag="c18st")
    ctx.add_tlc("trace validation Trace_Storages (replaced slot = logged uniform draw)", res, kind="trace_validation", traces=len(st_traces))
    ctx.traces += len(st_traces)
    for (clause, tid, l) in f2:
        if clause.startswith("draw."):
            t = st_traces[tid]
            ctx.violation("trace." + clause, "kind=%s" % t["kind"], "update %d (cap=%d seed=%d): slot replaced without a matching draw from the "
                          "global generators: %s" % (l, t["cap"], t["seed"], t["ev"][l - 1]), {k: t[k] for k in ("kind", "cap", "seed")})
    no_reseed_stage(ctx, seed)
    same_process_twice(ctx, rng, quick)
    two_process_experiment(ctx, seed, quick)
    ctx.assume("same interpreter configuration (PYTHONHASHSEED fixed); river's trees are reproducible given their seed")
    return ctx.finish()
