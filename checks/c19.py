"""C19 - TreeStorage reservoirs track current leaves; TreeImputer uses observed values."""
import copy
import random

from harness import core, tlc, tracecheck, gen_tree as GT

PID = "C19"


def run(tier, seed):
    ctx = core.Ctx(PID, tier, seed)
    quick = tier == "quick"
    rng = random.Random(seed)
    r = tlc.require_ok(tlc.run("MC_TreeStore", "MC_TreeStore_FALSE", coverage=True, tag="c19mc"), "TreeStore")
    if r.status != "ok":
        raise tlc.TLCError("TreeStore violates %s" % r.violated)
    ctx.add_tlc("MC_TreeStore: ReservoirKeysAreLeaves ReservoirBounded ContentsObserved NewestInRoutedLeaf NoDuplicates under an "
                "unrestricted tree environment (any leaf set after every learn_one)", r)
    rn = tlc.require_ok(tlc.run("MC_TreeStore", "MC_TreeStore_TRUE", tag="c19neg"), "neg")
    if rn.status != "violation":
        raise tlc.TLCError("negative control LazyPurge not refuted")
    ctx.add_tlc("negative control LazyPurge refuted (ReservoirKeysAreLeaves)", rn, kind="negative_control")
    ctx.exhaustive = True
    traces, labels = [], []
    # the pinned history under which stale reservoirs were first observed (DESIGN.md Appendix B, seed 9)
    gp, md, gen = GT.appendix_b_stream(9)
    tr, _ = GT.run_storage(["c1"], ["n1"], md, 2, gp, 9, 2400, gen, log_from=2250)
    traces.append(tr)
    labels.append("pinned history seed=9 (grace %d, depth %d), updates 2251..2400" % (gp, md))
    nruns = 4 if quick else 40
    for i in range(nruns):
        s = rng.randrange(1, 10 ** 6)
        stream = GT.Stream(s, period=rng.choice([150, 300]))
        cfg = dict(max_depth=rng.choice([2, 3, 4]), cap=rng.choice([1, 2, 3, 10]), grace=rng.choice([3, 5, 10, 50]))
        n = 700 if quick else 3000
        cat, num = (["c1"], ["n1"]) if i % 2 == 0 else (["c1", "c"], ["n1", "b"])
        tr, _ = GT.run_storage(cat, num, cfg["max_depth"], cfg["cap"], cfg["grace"], s, n, lambda t, st=stream: st.next(),
                               impute_every=11, log_from=0 if quick else n // 2)
        traces.append(tr)
        labels.append("stream seed=%d %s features=%s" % (s, cfg, cat + num))
    fails, res = tracecheck.validate("Trace_TreeStore", traces, lambda t: len(t["ev"]), tag="c19tr", timeout=1500)
    nev = sum(len(t["ev"]) for t in traces)
    nimp = sum(1 for t in traces for e in t["ev"] if e["k"] == "impute")
    ctx.add_tlc("trace validation Trace_TreeStore (per update and feature: leaf set, routed leaf, reservoirs before/after; "
                "TreeImputer calls in both modes)", res, kind="trace_validation", traces=len(traces), events=nev, impute_events=nimp)
    ctx.traces += len(traces)
    ctx.evaluations += nev
    ctx.count_clause("trace.tree.*", nev - nimp)
    ctx.count_clause("trace.timpute.*", nimp)
    for t, lab in zip(traces, labels):
        changes = len({str(sorted(e["leaves"])) for e in t["ev"] if e["k"] == "update"})
        ctx.nontrivial((lab, changes))
    seen = set()
    for (clause, tid, l) in sorted(fails, key=lambda f: (f[1], f[2])):
        if (clause, tid) in seen:
            continue
        seen.add((clause, tid))
        e = traces[tid]["ev"][l - 1]
        ctx.violation("trace." + clause, "feature=%s" % e.get("f", e.get("mode")),
                      "%s, update %s: %s" % (labels[tid], e.get("t"), {k: e[k] for k in e if k in ("leaves", "routed", "pre", "post", "subset", "allowed", "inputs", "count", "n", "error")}),
                      {"label": labels[tid], "event": e})
    for t in traces:
        for e in t["ev"]:
            if e["k"] == "impute" and e.get("error"):
                ctx.violation("trace.timpute.raises", e["mode"], e["error"], e)
                break
    ctx.sample({"direction": "B", "label": labels[1], "events": [e for e in traces[1]["ev"] if e["k"] == "update"][-2:]})
    ctx.sample({"impute_event": next((e for t in traces for e in t["ev"] if e["k"] == "impute" and e["subset"]), None)})
    bad = copy.deepcopy(traces[1:2])
    for e in bad[0]["ev"]:
        if e["k"] == "update" and e["post"]:
            e["post"].append([9999, [1]])
            break
    f2, _ = tracecheck.validate("Trace_TreeStore", bad, lambda t: len(t["ev"]), tag="c19self", workers=2)
    if not any(c == "tree.keys_are_leaves" for (c, t, l) in f2):
        raise tlc.TLCError("binding self-test failed: a reservoir of a non-existing leaf was not rejected")
    ctx.add_stage("self-test: reservoir keyed by a non-existing leaf rejected", "selftest", rejected=len(f2))
    ctx.assume("river's trees are environment (unrestricted in the specification); leaf ids are the library's path strings, their "
               "number cross-checked by an independent traversal; numeric values sampled from leaf statistics are unconstrained")
    return ctx.finish()
