"""C14 - model wrappers give one canonical dict output form for single and batch input."""
import random

from harness import core, tlc, wrappers_cases as WC

PID = "C14"


def run(tier, seed):
    ctx = core.Ctx(PID, tier, seed)
    quick = tier == "quick"
    r = tlc.require_ok(tlc.run("Wrappers", workers=1, tag="c14"), "Wrappers")
    if r.status != "ok":
        raise tlc.TLCError("Wrappers violates %s" % r.violated)
    ctx.add_tlc("Wrappers: OrderIndependentWithNames BatchEqualsRowwise OneHot Stateless (shape x batch size x feature_names x key order; "
                "river label histories; call sequences on one wrapper object)", r, kind="case_enumeration")
    ctx.exhaustive = True
    recs = r.json_prints()
    na = nr = ns = 0
    seen = set()
    for rec in recs:
        key = str(rec)
        if key in seen:
            continue
        seen.add(key)
        if rec["mode"] == "array":
            for kind in ("sklearn", "torch"):
                others = ("float32", "int64", "int32", "bool", "uint8", "float16", "int8")
                for dtype in (("float64", others[na % len(others)]) if quick else ("float64",) + others):
                    na += 1
                    for (clause, detail) in WC.array_case(rec, kind, dtype):
                        ctx.violation(clause, "%s shape=%s batch=%s" % (kind, rec["shape"], "dict" if rec["batch"] == 0 else "list"), detail,
                                      {"case": rec, "wrapper": kind, "dtype": dtype})
            ctx.nontrivial(("W", rec["shape"], rec["batch"], str(rec["names"]), str(rec["keyorder"])))
        elif rec["mode"] == "array_seq":
            if len(rec["calls"]) < 2 or (quick and (hash(key) % 7)):
                continue
            for kind in ("sklearn", "torch"):
                ns += 1
                for (clause, detail) in WC.seq_case(rec, kind):
                    ctx.violation(clause, "%s names=%s" % (kind, rec["names"]), detail, {"case": rec, "wrapper": kind})
            ctx.nontrivial(("S", str(rec["names"]), str(rec["calls"])))
        else:
            nr += 1
            for (clause, detail) in WC.river_case(rec):
                ctx.violation(clause, "river labels", detail, {"case": rec})
            if len(rec["labels"]) >= 2:
                ctx.nontrivial(("R", str(rec["labels"])))
    for (clause, detail) in WC.river_other():
        ctx.violation(clause, "river", detail, None)
    probs, nd = WC.dispatch_cases(not quick)
    for (clause, detail) in probs:
        ctx.violation(clause, detail.split(" ->")[0], detail, None)
    ctx.traces += na + nr + nd + ns
    ctx.evaluations += na + nr + nd + ns
    ctx.count_clause("wrapper.*", na + nr)
    ctx.count_clause("wrapper.stateless_canonical_form", ns)
    ctx.count_clause("dispatch.*", nd)
    ctx.add_stage("each TLC state as implementation test (SklearnWrapper and TorchWrapper stubs; RiverWrapper label histories); "
                  "dispatch over sklearn estimators, river models, torch modules", "replay", array_cases=na, river_cases=nr, call_sequences_on_one_wrapper=ns, dispatch=nd)
    ctx.sample({"array_case": next(x for x in recs if x["mode"] == "array" and x["batch"] == 2 and x["shape"] == "n_one")})
    ctx.sample({"river_case": next(x for x in recs if x["mode"] == "river" and len(x["labels"]) == 3)})
    ctx.assume("model classes of the installed sklearn / river / torch versions; stub prediction functions return arrays of the "
               "stated shape whose values are position-weighted sums of the inputs that reached them")
    return ctx.finish()
