"""C04 - PFI/SAGE updates are unbiased: uniform feature orders and background rows."""
import itertools
import random
from fractions import Fraction as F

import numpy as np

from harness import core, tlc, dist, engine_explainer as E, engine_batch as EB, expectation as XP, gen_explainer as G
from harness.fieldp import qpair
from checks import _explainer as X

PID = "C04"


def wanted_replay(clause):
    return clause == "replay.draw_range"


def wanted_trace(clause, trace, call):
    return clause.startswith("draw.")


def frequency_test(ctx, seed, quick):
    """D: frequencies of the feature orders and background rows actually used over many seeded calls"""
    d, m = 3, 4
    ncalls = 3000 if quick else 30000
    sc = G.Scenario(cls="sage", d=d, names="idx", n_inner=1, dynamic=True, alpha=F(1, 2), storage=("batch",), imputer="joint",
                    tables="random", numeric="float", seed=seed,
                    stream=[([F((i if i < m else i % 3) * (j + 1) + j) for j in range(d)], i % 2, None, i < m) for i in range(m + ncalls)])
    try:
        tr, _ = G.run_scenario(sc)
    except (G.NotObservable, G.ConstructError):
        ctx.skip("frequency test (state not observable)")
        return
    orders, rows = {}, {}
    for c in tr["calls"][m:]:
        if c["outcome"] != "ret" or len(c["imputes"]) != d:
            continue
        prev = set(range(1, d + 1))
        order = []
        for i in c["imputes"]:
            diff = prev - set(i["subset"])
            order.append(next(iter(diff)) if len(diff) == 1 else 0)
            prev = set(i["subset"])
        orders[tuple(order)] = orders.get(tuple(order), 0) + 1
        # which stored row supplied the imputed values of the first imputation (subset of size d-1 >= 1)
        ms = [mm for mm in c["models"] if mm["imp"] == 1]
        sub = c["imputes"][0]["subset"]
        for mm in ms:
            cands = [r for r, row in enumerate(c["rows"]) if all(mm["x"][f - 1] == row[f - 1] for f in sub)]
            if len(cands) == 1:
                rows[cands[0]] = rows.get(cands[0], 0) + 1
    n_o = sum(orders.values())
    cells = 0
    for p in itertools.permutations(range(1, d + 1)):
        pv = dist.binom_two_sided_p(orders.get(p, 0), n_o, 1.0 / 6)
        cells += 1
        if pv < 1e-10:
            ctx.violation("stat.order_uniform", "sage d=3", "feature order %s used in %d of %d explained calls (law 1/6), p-value %.3g"
                          % (p, orders.get(p, 0), n_o, pv), {"seed": seed, "calls": ncalls})
    for o in set(orders) - set(itertools.permutations(range(1, d + 1))):
        ctx.violation("stat.order_uniform", "sage d=3", "order %s is not a permutation" % (o,), {"seed": seed})
    n_r = sum(rows.values())
    nrows = len(tr["calls"][-1]["rows"])
    # rows with identical content cannot be told apart; the stream above has m pairwise distinct rows
    for r in range(nrows):
        pv = dist.binom_two_sided_p(rows.get(r, 0), n_r, 1.0 / nrows)
        cells += 1
        if pv < 1e-10:
            ctx.violation("stat.row_uniform", "joint, %d rows" % nrows, "stored row %d supplied the background in %d of %d imputations "
                          "(law 1/%d), p-value %.3g" % (r, rows.get(r, 0), n_r, nrows, pv), {"seed": seed, "calls": ncalls})
    ctx.add_stage("seeded statistics: order frequencies over %d calls, row frequencies over %d imputations (threshold 1e-10)" % (n_o, n_r),
                  "statistics", cells=cells)
    ctx.evaluations += n_o
    ctx.count_clause("stat.*", cells)


def run(tier, seed):
    ctx = core.Ctx(PID, tier, seed)
    quick = tier == "quick"
    rng = random.Random(seed)
    # (i) the theorem about the specification's sampling scheme, evaluated exactly by TLC, and
    # (ii) the exact expectation of the real code for the same instance
    # (product vs joint can only differ where two features are imputed together: d >= 3)
    cases = [("sage_joint", "sage", "joint", 2, 2, 3), ("sage_product3", "sage", "product", 3, 1, 2),
             ("pfi_joint", "pfi", "joint", 3, 2, 3), ("pfi_product", "pfi", "product", 2, 2, 2),
             ("batch_m3", "batch", "joint", 2, 1, 3), ("batch_m2n2", "batch", "joint", 2, 2, 2),
             ("batch_prod", "batch", "product", 3, 1, 2),
             # several inner samples with the product strategy: every inner sample draws its own row per feature
             ("sage_product3n2", "sage", "product", 3, 2, 2)]
    if not quick:
        cases += [("sage_joint3", "sage", "joint", 3, 1, 3), ("sage_product", "sage", "product", 2, 1, 3)]
    for (cfg, mode, strat, d, n, m) in cases:
        r = tlc.require_ok(tlc.run("Expectation", "Expectation_" + cfg, workers=1, tag="c04exp", timeout=900), cfg)
        if r.status != "ok":
            raise tlc.TLCError("Expectation(%s): an ASSUME of the specification is false: %s" % (cfg, r.violated))
        ctx.add_tlc("Expectation_%s: ASSUME expected contribution over all orders x draws = Shapley / PFI value" % cfg, r,
                    kind="constant_level")
        ctx.states += 1
        ctx.transitions += 1
        rec = r.tagged("expectation")[0]
        target = [qpair(v) for v in rec[6]]
        entries = [(mode, None)] if mode != "batch" else [("batch", "many_product"), ("batch", "interval_product")] if strat == "product" else \
            [("batch", "many"), ("batch", "original"), ("batch", "interval")] + \
            ([("batch", "original_product"), ("batch", "original_foreign")] if cfg == "batch_m2n2" or not quick else [])
        for (_, entry) in entries:
            if mode == "batch":
                exp, tot, nruns, kinds = XP.batch(entry, d, n, m)
                ok = all(abs(float(a) - float(b)) <= 1e-9 * (1 + abs(float(b))) for a, b in zip(exp, target))
                what = "BatchSage.explain_many (explainer built with a product imputer)" if entry == "many_product" else \
                    "IntervalSage.explain_one (explainer handed an IntervalStorage and a product imputer)" if entry == "interval_product" else \
                    "IntervalSage.explain_one (recomputing call)" if entry == "interval" else \
                    "BatchSage.explain_many_original (explainer built with a product imputer)" if entry == "original_product" else \
                    "BatchSage.explain_many_original (storage holds other rows than the data set)" if entry == "original_foreign" else \
                    "BatchSage.explain_many%s" % ("_original" if entry == "original" else "")
            else:
                exp, tot, nruns, kinds = XP.incremental(mode, strat, d, n, m)
                ok = exp == target
                what = "Incremental%s(%s)" % ("Sage" if mode == "sage" else "PFI", strat)
            ctx.traces += nruns
            ctx.evaluations += nruns
            ctx.count_clause("dist.expected_contribution")
            ctx.nontrivial(("C", cfg, entry))
            ctx.sample({"case": cfg, "entry": entry, "draws_requested": kinds, "code_expectation": [str(v) for v in exp],
                        "tlc_target": [str(v) for v in target], "enumerated_executions": nruns})
            if tot != 1:
                raise tlc.TLCError("enumeration weights do not sum to one")
            if not ok:
                ctx.violation("dist.expected_contribution", "%s d=%d n=%d rows=%d" % (what, d, n, m),
                              "exact expected contribution of the code %s, %s value computed by TLC %s; draws requested by the "
                              "code: %s" % ([str(v) if mode != "batch" else float(v) for v in exp],
                                            "PFI" if mode == "pfi" else "Shapley", [str(v) for v in target], kinds),
                              {"case": cfg, "entry": entry})
    ctx.exhaustive = True
    # draw kind / range conformance along TLC behaviours (the code must ask for the draws the specification consumes)
    X.replay_stage(ctx, ["sage_q", "pfi_q"] if quick else ["sage_q", "pfi_q", "sage_a", "sage_prod", "pfi_prod", "sage_d3"],
                   wanted_replay, limit=None if quick else 3000, rng=rng)
    r = tlc.require_ok(tlc.run("MC_BatchSage", "MC_BatchSage_emit", workers=1, tag="c04emit"), "emit")
    recs = r.json_prints()
    ctx.add_tlc("behaviour export MC_BatchSage_emit", r, kind="behaviour_export", behaviours=len(recs))
    for rec in recs:
        probs, _ = EB.replay_batch_behaviour(rec, 2, 1)
        for (clause, detail) in probs:
            if clause == "replay.batch.not_followed":
                ctx.skip("batch behaviours the code could not follow (different random primitives)")
            if clause == "replay.batch.draw_range":
                ctx.violation(clause, "mode=%s rows=%d" % (rec["mode"], len(rec["data"])), detail, {"batch_behaviour": rec, "d": 2, "n": 1})
    ctx.traces += len(recs)
    ctx.evaluations += len(recs)
    # B: draws of recorded runs
    scs = E.fault_free_batch(rng, 60 if quick else 600, quick)
    traces, kept, fails = E.validate(ctx, scs, wanted_trace, "draw clauses on recorded runs (order = drawn permutation, row range = storage size)")
    ctx.count_clause("trace.draw.*", sum(len(t["calls"]) for t in traces))
    frequency_test(ctx, seed, quick)
    ctx.assume("Python's and NumPy's global generators are uniform (the law of the code is computed over its requested draws)")
    return ctx.finish()
