"""C06 - imputers replace exactly the requested features with genuine background values."""
import random

from harness import core, tlc, engine_explainer as E, replay_imputer as RI

PID = "C06"


def wanted_trace(clause, trace, call):
    return clause.startswith("impute.")


def run(tier, seed):
    ctx = core.Ctx(PID, tier, seed)
    quick = tier == "quick"
    rng = random.Random(seed)
    cfg = "MC_Imputers_q" if quick else "MC_Imputers_t"
    r = tlc.require_ok(tlc.run("MC_Imputers", cfg, coverage=True, tag="c06mc"), cfg)
    if r.status != "ok":
        raise tlc.TLCError("imputer specification violates %s" % r.violated)
    ctx.add_tlc(cfg + ": AgreesOutside InsideFromBackground JointNeverMixes EmptySubsetIsIdentity CountBounded", r)
    ctx.exhaustive = True
    cfg = "MC_Imputers_emit" if quick else "MC_Imputers_emit_t"
    r = tlc.require_ok(tlc.run("MC_Imputers", cfg, workers=1, tag="c06emit"), cfg)
    recs = r.json_prints()
    ctx.add_tlc("behaviour export " + cfg, r, kind="behaviour_export", behaviours=len(recs))
    conts = list(RI.CONTAINERS)
    nrep = 0
    for i, rec in enumerate(recs):
        combos = [(conts[(i + j) % len(conts)], RI.STORAGES[(i + j) % 4], "str" if (i + j) % 3 else "num") for j in range(2 if quick else 6)]
        for (cont, skind, nk) in combos:
            nrep += 1
            for (clause, detail) in RI.replay(rec, cont, skind, nk, zero=(nrep % 3), keywords=(nrep % 4 == 0)):
                if clause == "replay.impute.not_followed":
                    ctx.skip("behaviours the imputer could not follow (different random primitives / number of draws)")
                    continue
                ctx.violation(clause, "strategy=%s container=%s storage=%s" % (rec["strategy"], cont, skind), detail,
                              {"behaviour": rec, "container": cont, "storage": skind, "names": nk})
        if rec["subset"]:
            ctx.nontrivial(("A", rec["strategy"], str(rec["subset"]), rec["nrows"], rec["n"], str(rec["draws"])))
    ctx.add_stage("spec->code replay: every behaviour x subset containers {list, tuple, set, frozenset, dict keys, reversed} "
                  "x storages {batch, interval, geometric, uniform}", "replay", executions=nrep)
    ctx.traces += nrep
    ctx.evaluations += nrep
    ctx.count_clause("replay.impute.*", nrep)
    ctx.sample({"direction": "A", "behaviour": recs[len(recs) // 2]})
    # B: imputer calls inside explainer traces
    scs = E.fault_free_batch(rng, 80 if quick else 800, quick)
    for i, sc in enumerate(scs):
        if sc.imputer == "custom":
            sc.imputer = ["joint", "product", "default", None][i % 4]
    traces, kept, fails = E.validate(ctx, scs, wanted_trace, "imputer calls inside IncrementalSage / IncrementalPFI runs")
    ctx.count_clause("trace.impute.*", sum(len(c["imputes"]) for t in traces for c in t["calls"]))
    if traces:
      ctx.sample({"direction": "B", "scenario": kept[0].key(),
                "impute_events": traces[0]["calls"][1]["imputes"][:2] if len(traces[0]["calls"]) > 1 else None})
    # large numbers of inner samples and a library Wrapper as model function (batched evaluation paths)
    from harness import gen_explainer as G
    from fractions import Fraction as F
    big = []
    for i in range(8 if quick else 60):
        d = rng.choice([1, 2])
        stream = [([F(rng.randrange(-3, 4), 2) for _ in range(d)], rng.randrange(0, 3),
                   rng.choice([None, 7, 64, 65, 100, 130]) if t else None, True) for t in range(4)]
        big.append(G.Scenario(cls=["pfi", "sage"][i % 2], d=d, names="str", n_inner=rng.choice([1, 66]), dynamic=True, alpha=F(1, 2),
                              storage=("interval", 3), imputer=[None, "joint", "product", "default"][i % 4], nlab=1,
                              wrap="sklearn" if i % 4 != 3 or True else None, numeric="float", stream=stream, seed=rng.randrange(2 ** 31)))
    tr3, kept3, _ = E.validate(ctx, big, wanted_trace, "imputer calls with up to 130 inner samples and a SklearnWrapper as model function")
    ctx.count_clause("trace.impute.*(large n, wrapped model)", sum(len(c["imputes"]) for t in tr3 for c in t["calls"]))
    ctx.assume("TreeImputer is covered by C19")
    return ctx.finish()
