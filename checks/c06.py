"""C06 - imputers replace exactly the requested features with genuine background values."""
import random

from harness import core, tlc, engine_explainer as E, replay_imputer as RI

PID = "C06"


def wanted_trace(clause, trace, call):
    return clause.startswith("impute.")


def run(tier, seed):
    ctx = core.Ctx(PID, tier, seed)
    quick = tier == "quick"
    rng = random.Random(seed)
    cfg = "MC_Imputers_q" if quick else "MC_Imputers_t"
    r = tlc.require_ok(tlc.run("MC_Imputers", cfg, coverage=True, tag="c06mc"), cfg)
    if r.status != "ok":
        raise tlc.TLCError("imputer specification violates %s" % r.violated)
    ctx.add_tlc(cfg + ": AgreesOutside InsideFromBackground JointNeverMixes EmptySubsetIsIdentity CountBounded", r)
    ctx.exhaustive = True
    cfg = "MC_Imputers_emit" if quick else "MC_Imputers_emit_t"
    r = tlc.require_ok(tlc.run("MC_Imputers", cfg, workers=1, tag="c06emit"), cfg)
    recs = r.json_prints()
    ctx.add_tlc("behaviour export " + cfg, r, kind="behaviour_export", behaviours=len(recs))
    conts = list(RI.CONTAINERS)
    nrep = 0
    for i, rec in enumerate(recs):
        combos = [(conts[(i + j) % len(conts)], RI.STORAGES[(i + j) % 4], "str" if (i + j) % 3 else "num") for j in range(2 if quick else 6)]
        for (cont, skind, nk) in combos:
            nrep += 1
            for (clause, detail) in RI.replay(rec, cont, skind, nk):
                if clause == "replay.impute.not_followed":
                    ctx.skip("behaviours the imputer could not follow (different random primitives / number of draws)")
                    continue
                ctx.violation(clause, "strategy=%s container=%s storage=%s" % (rec["strategy"], cont, skind), detail,
                              {"behaviour": rec, "container": cont, "storage": skind, "names": nk})
        if rec["subset"]:
            ctx.nontrivial(("A", rec["strategy"], str(rec["subset"]), rec["nrows"], rec["n"], str(rec["draws"])))
    ctx.add_stage("spec->code replay: every behaviour x subset containers {list, tuple, set, frozenset, dict keys, reversed} "
                  "x storages {batch, interval, geometric, uniform}", "replay", executions=nrep)
    ctx.traces += nrep
    ctx.evaluations += nrep
    ctx.count_clause("replay.impute.*", nrep)
    ctx.sample({"direction": "A", "behaviour": recs[len(recs) // 2]})
    # B: imputer calls inside explainer traces
    scs = E.fault_free_batch(rng, 80 if quick else 800, quick)
    for i, sc in enumerate(scs):
        if sc.imputer == "custom":
            sc.imputer = ["joint", "product", "default", None][i % 4]
    traces, kept, fails = E.validate(ctx, scs, wanted_trace, "imputer calls inside IncrementalSage / IncrementalPFI runs")
    ctx.count_clause("trace.impute.*", sum(len(c["imputes"]) for t in traces for c in t["calls"]))
    if traces:
      ctx.sample({"direction": "B", "scenario": kept[0].key(),
                "impute_events": traces[0]["calls"][1]["imputes"][:2] if len(traces[0]["calls"]) > 1 else None})
    ctx.assume("TreeImputer is covered by C19")
    return ctx.finish()
