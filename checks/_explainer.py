"""Shared stages of the explainer checks (C01, C02, C03, C15, C17; C04/C06 reuse the traces)."""
import importlib.util
import os
import random

from harness import core, tlc, engine_explainer as E, replay_explainer as R

_spec = importlib.util.spec_from_file_location("gen_cfgs", os.path.join(tlc.SPEC, "gen_cfgs.py"))
gen_cfgs = importlib.util.module_from_spec(_spec)
_spec.loader.exec_module(gen_cfgs)


def mc_stage(ctx, configs, invariants_note, negatives=()):
    """Exhaustive model checking of IncExplainer for the given configs; negative controls must be refuted."""
    for c in configs:
        r = tlc.require_ok(tlc.run("MC_IncExplainer", "MC_IncExplainer_" + c, coverage=True, tag=ctx.pid.lower() + "mc"), c)
        if r.status != "ok":
            raise tlc.TLCError("IncExplainer(%s) violates its own property %s\n%s" % (c, r.violated, r.counterexample[:3000]))
        ctx.add_tlc("MC_IncExplainer_%s %s: %s" % (c, gen_cfgs.params("mc", c), invariants_note), r)
        zero = [a for a, n in r.coverage.items() if n[1] == 0 and not a.endswith("DrawPerm") and not a.endswith("CallLossMarg")
                and not a.endswith("EmptyStorageFault")]
        if zero:
            raise tlc.TLCError("vacuity guard: actions never taken in %s: %s" % (c, zero))
    for c, inv in negatives:
        r = tlc.require_ok(tlc.run("MC_IncExplainer", "MC_IncExplainer_" + c, tag=ctx.pid.lower() + "neg"), c)
        # with several workers TLC may report either of the invariants the old commit order breaks
        accept = {inv, "Efficiency", "LockStep"} if inv == "FaultAtomic" else {inv}
        if r.status != "violation" or r.violated not in accept:
            raise tlc.TLCError("negative control %s: TLC did not refute %s (status %s / %s)" % (c, inv, r.status, r.violated))
        ctx.add_tlc("negative control %s (old commit order): %s refuted" % (c, r.violated), r, kind="negative_control")
    ctx.exhaustive = True


def live_stage(ctx):
    """liveness under weak fairness of the steps of a running call: an explain_one call that was entered returns or
    raises (no step of the call waits for anything); without the fairness assumption TLC must refute it"""
    for c in ("live_sage", "live_pfi"):
        r = tlc.require_ok(tlc.run("MC_IncExplainer", "MC_IncExplainer_" + c, tag=ctx.pid.lower() + "live"), c)
        if r.status != "ok":
            raise tlc.TLCError("IncExplainer(%s): liveness property %s fails\n%s" % (c, r.violated, r.counterexample[:2000]))
        ctx.add_tlc("MC_IncExplainer_%s: FairSpec => CallTerminates, ReturnCounts (temporal properties)" % c, r, kind="liveness")
    r = tlc.require_ok(tlc.run("MC_IncExplainer", "MC_IncExplainer_live_neg", tag=ctx.pid.lower() + "liveneg"), "live_neg")
    if r.status != "violation":
        raise tlc.TLCError("negative control: without fairness CallTerminates must not hold (status %s)" % r.status)
    ctx.add_tlc("negative control: Spec without fairness does not imply CallTerminates (stuttering)", r, kind="negative_control")


def skeleton_stage(ctx, configs, negatives=()):
    """FaultAtomic / StoreOnce / NeverOwnBackground for ANY number of features, inner samples and calls: TLAPS proof over the
    control skeleton of explain_one, and TLC refinement of IncExplainer to that skeleton (the old commit order must not
    refine it)"""
    from harness import tlaps
    tlaps.prove(ctx, "CtlSkeleton", "Spec => [](FaultAtomic /\\ StoreOnce /\\ NeverOwnBackground) for every D >= 1, every per-call "
                "number of inner samples and every number of calls")
    for c in configs:
        r = tlc.require_ok(tlc.run("Refine_CtlSkeleton", "Refine_CtlSkeleton_" + c, tag=ctx.pid.lower() + "skel"), c)
        if r.status != "ok":
            raise tlc.TLCError("IncExplainer(%s) does not implement CtlSkeleton: %s\n%s" % (c, r.violated, r.counterexample[:2500]))
        ctx.add_tlc("refinement IncExplainer_%s => CtlSkeleton!Spec" % c, r, kind="refinement")
    for c in negatives:
        r = tlc.require_ok(tlc.run("Refine_CtlSkeleton", "Refine_CtlSkeleton_" + c, tag=ctx.pid.lower() + "skelneg"), c)
        if r.status != "violation":
            raise tlc.TLCError("negative control %s: the old commit order refines the skeleton (status %s)" % (c, r.status))
        ctx.add_tlc("negative control %s (old commit order) does not implement CtlSkeleton" % c, r, kind="negative_control")


def abs_stage(ctx, configs):
    """The atomic specification (one explain_one call = one step) checked on its own: deeper call sequences."""
    for c in configs:
        r = tlc.require_ok(tlc.run("MC_AbsExplainer", "MC_AbsExplainer_" + c, coverage=True, tag=ctx.pid.lower() + "abs"), c)
        if r.status != "ok":
            raise tlc.TLCError("AbsExplainer(%s) violates its own property %s\n%s" % (c, r.violated, r.counterexample[:3000]))
        ctx.add_tlc("MC_AbsExplainer_%s (atomic level): AEfficiency ALockStep AVarNonNegative AKeys AStoreBound "
                    "AMargPredNormalised AMonotone" % c, r)


def refine_stage(ctx, configs, negatives=(), exists_form=()):
    """Refinement IncExplainer (micro steps, faults) => AbsExplainer (atomic) under the mapping of
    Refine_IncExplainer.tla; the pre-repair commit order (negatives) must not refine."""
    for c in configs:
        r = tlc.require_ok(tlc.run("Refine_IncExplainer", "Refine_IncExplainer_" + c, tag=ctx.pid.lower() + "ref"), c)
        if r.status != "ok":
            raise tlc.TLCError("IncExplainer(%s) does not refine AbsExplainer: %s\n%s" % (c, r.violated, r.counterexample[:3000]))
        ctx.add_tlc("refinement IncExplainer_%s => AbsExplainer (a failed call stutters, a returning call is one "
                    "Explain step with the call's own order / draws / reservoir choice)" % c, r, kind="refinement")
    for c in exists_form:
        r = tlc.require_ok(tlc.run("Refine_IncExplainer", "Refine_IncExplainer_%s_ex" % c, tag=ctx.pid.lower() + "refx"), c)
        if r.status != "ok":
            raise tlc.TLCError("IncExplainer(%s) does not implement AbsExplainer!ASpec: %s" % (c, r.violated))
        ctx.add_tlc("refinement IncExplainer_%s => AbsExplainer!ASpec (existential form)" % c, r, kind="refinement")
    for c in negatives:
        r = tlc.require_ok(tlc.run("Refine_IncExplainer", "Refine_IncExplainer_" + c, tag=ctx.pid.lower() + "refneg"), c)
        if r.status != "violation" or "Refines" not in str(r.violated):
            raise tlc.TLCError("negative control %s: the old commit order was not refuted as a refinement (status %s / %s)"
                               % (c, r.status, r.violated))
        ctx.add_tlc("negative control %s (old commit order) does not refine AbsExplainer" % c, r, kind="negative_control")


def replay_stage(ctx, logcfgs, wanted, limit=None, rng=None):
    """Direction A: export behaviours from MC_IncExplainerLog and replay them into the real classes.
    wanted(clause) -> bool selects the comparison clauses that belong to the calling property."""
    total = 0
    for c in logcfgs:
        r = tlc.require_ok(tlc.run("MC_IncExplainerLog", "MC_IncExplainerLog_" + c, workers=1, tag=ctx.pid.lower() + "log"), c)
        if r.status != "ok":
            raise tlc.TLCError("behaviour export %s failed: %s" % (c, r.violated))
        behs = r.json_prints()
        if not behs:
            raise tlc.TLCError("behaviour export %s produced no behaviours" % c)
        cfg = gen_cfgs.params("log", c)
        if limit and len(behs) > limit:
            behs = (rng or random.Random(0)).sample(behs, limit)
        nprob = 0
        nfaulted = 0
        for b in behs:
            probs, trace, sc = R.replay(b, cfg)
            total += 1
            if any(x["fault"] for x in b):
                nfaulted += 1
            if any(x["order"] or x["rows"] for x in b):
                ctx.nontrivial(("A", c, str([(x["x"], x["order"], str(x["rows"]), x["fault"], x["choice"]) for x in b])))
            for (clause, i, detail) in probs:
                if clause == "replay.not_followed":
                    # the code uses other random primitives than the behaviour scripts: not a violation by itself
                    # (the law of the code's own draws is judged by C04's enumeration and statistics)
                    ctx.skip("behaviours the code could not follow (different random primitives / number of draws)")
                    continue
                if wanted(clause):
                    nprob += 1
                    ctx.violation(clause, "config=%s call=%d fault=%s" % (c, i + 1, [x["fault"] for x in b]),
                                  detail, {"behaviour": b, "config": cfg, "logcfg": c})
        ctx.add_tlc("behaviour export MC_IncExplainerLog_%s" % c, r, kind="behaviour_export",
                    behaviours=len(behs), with_fault=nfaulted, mismatches=nprob)
        ctx.sample({"direction": "A", "config": c, "behaviour": behs[len(behs) // 2]})
    ctx.traces += total
    ctx.evaluations += total
    ctx.count_clause("replay.*", total)
    return total


def replay_file(ctx, path, wanted):
    import json
    d = json.load(open(path))
    rp = d.get("replay") or {}
    if "behaviour" in rp:
        probs, _, _ = R.replay(rp["behaviour"], rp["config"])
        for (clause, i, detail) in probs:
            if wanted(clause):
                ctx.violation(clause, d.get("key", "replay"), detail, rp)
        ctx.traces += 1
        ctx.evaluations += 1
        ctx.nontrivial("replay-a")
        ctx.nontrivial("replay-b")
        ctx.states = ctx.transitions = 1
        ctx.sample(rp["behaviour"])
        return True
    if "scenario" in rp:
        from harness import gen_explainer as G
        sc = G.Scenario.from_json(rp["scenario"])
        E.validate(ctx, [sc], lambda clause, t, c: wanted("trace." + clause), "replay")
        ctx.nontrivial("replay-a")
        ctx.nontrivial("replay-b")
        ctx.sample(rp["scenario"])
        return True
    return False
