"""C09 - GeometricReservoirStorage follows its recency-weighted inclusion law."""
import copy
import random
from fractions import Fraction as F

from harness import core, tlc, dist, gen_storages as GS
from harness.fieldp import qpair

PID = "C09"
GRID = 60


class Misaligned(Exception):
    pass


def code_distribution(k, p, nmax, conv=int, positional=False, dup=False):
    """exact law of the real class after every arrival: enumerate its draws, merge equal contents"""
    pf = None if p is None else float(p)
    random.seed(0)
    s0 = GS.make("geometric", k, True, pf, conv=conv, positional=positional)
    # a second live reservoir of the same class, still filling (consumes no draws): objects must not share state
    cur = {(): (s0, F(1))}
    out = {}
    for n in range(1, nmax + 1):
        new = {}
        for key, (st, w) in cur.items():
            def call(s, n=n):
                x, y = GS.item_dup(n) if dup else GS.item(n)
                decoy = GS.make("geometric", 50, True, pf)
                decoy.update({"id": -n, "v": -1.0}, "decoy")
                s.get_data(), len(s)            # a reader between the updates changes nothing
                s.update(x, y)
                return s
            for (pw, s2, script) in dist.enumerate_call(lambda st=st: copy.deepcopy(st), call, grid=GRID):
                sx, sy = GS.project(s2)
                if dup:
                    # repeated feature vectors: every arrival has the same features, the stored arrivals are told apart
                    # by the targets that came with them
                    xs_, ys_ = s2.get_data()
                    sx = [t - 100 for t in sy] if all(x_ == GS.item_dup(0)[0] for x_ in xs_) and len(xs_) == len(ys_) else [-1]
                if sy != [100 + t for t in sx]:
                    raise Misaligned("after %d arrivals: instances %s, targets %s" % (n, sx, sy))
                k2 = tuple(sx)
                a = new.setdefault(k2, [s2, F(0)])
                a[1] += w * pw
        cur = {kk: (v[0], v[1]) for kk, v in new.items()}
        out[n] = {kk: v[1] for kk, v in cur.items() if v[1] != 0}
    return out


def run(tier, seed):
    ctx = core.Ctx(PID, tier, seed)
    quick = tier == "quick"
    for cfg in (["geo_q"] if quick else ["geo_q", "geo_t", "geo_k1"]):
        r = tlc.require_ok(tlc.run("ReservoirLaw", "ReservoirLaw_" + cfg, tag="c09mc"), cfg)
        if r.status != "ok":
            raise tlc.TLCError("ReservoirLaw(%s) violates %s" % (cfg, r.violated))
        ctx.add_tlc("ReservoirLaw_%s: Total KernelIsStorages GeometricLaw AlwaysStoredWhenPOne (state = whole pmf, "
                    "exact rationals, p in {0, 1/3, 1/2, 2/3, 1, 1/k})" % cfg, r)
    ctx.exhaustive = True
    # C: exact distribution of the code vs the distribution TLC derived from the specification
    r = tlc.require_ok(tlc.run("ReservoirLaw", "ReservoirLaw_geo_emit", workers=1, tag="c09emit"), "emit")
    recs = r.json_prints()
    ctx.add_tlc("law export ReservoirLaw_geo_emit (K=2, n<=6)", r, kind="behaviour_export")
    want = {}
    for rec in recs:
        want[(rec["n"], tuple(rec["p"]))] = {tuple(kk): qpair(m) for kk, m in zip(rec["keys"], rec["mass"])}
    ncmp = 0
    for p in sorted({pp for (_, pp) in want}):
        pq = F(*p)
        # every p once with keyword arguments and a Python int size, once with the arguments passed by position (in the
        # documented order size, constant_probability, store_targets) and the size as a NumPy integer scalar
        import numpy as np
        variants = [(pq, int, False), (pq, [np.int64, np.int8, np.uint8, np.int32][pq.numerator % 4], True)] \
            + ([(None, int, False), (None, np.int16, True)] if pq == F(1, 2) else [])
        # ... and once on a stream of repeated feature vectors (arrivals that differ in their target only)
        variants = [v + (False,) for v in variants] + [(pq, int, False, True)]
        for (pv, conv, positional, dup) in variants:
            where = "p=%s%s%s" % ("default" if pv is None else pv, " positional arguments, size as %s" % conv.__name__ if positional else "",
                                  " repeated feature vectors" if dup else "")
            try:
                cd = code_distribution(2, pv, 6, conv, positional, dup)
            except Misaligned as e:
                ctx.violation("dist.content_is_observed_pairs", where, "a reachable content of GeometricReservoirStorage(size=2, "
                              "store_targets=True) is not a set of observed (instance, target) pairs: %s" % e, {"k": 2, "p": str(pv)})
                continue
            except Exception as e:
                ctx.violation("dist.update_raises", where, "%s: %s" % (type(e).__name__, str(e)[:200]), {"k": 2, "p": str(pv)})
                continue
            for n in range(1, 7):
                w = want[(n, p)]
                ncmp += 1
                ctx.nontrivial(("C", str(pv), n))
                if cd[n] != w:
                    diff = {str(kk): (str(cd[n].get(kk, 0)), str(w.get(kk, 0))) for kk in set(cd[n]) | set(w)
                            if cd[n].get(kk, 0) != w.get(kk, 0)}
                    ctx.violation("dist.geometric_law", where,
                                  "after %d arrivals the exact distribution of GeometricReservoirStorage(size=2, p=%s) "
                                  "differs from the specification's (content: (code, spec)): %s" % (n, pv, dict(list(diff.items())[:6])),
                                  {"k": 2, "p": str(pv), "n": n})
                    break
    ctx.add_stage("exact distribution of the real class (enumerated draws, grid %d) == TLC's dist after every arrival" % GRID,
                  "distribution_conformance", comparisons=ncmp)
    ctx.traces += ncmp
    ctx.evaluations += ncmp
    ctx.count_clause("dist.geometric_law", ncmp)
    ctx.sample({"n": 3, "p": "1/3", "spec_dist": {str(k): str(v) for k, v in want[(3, (1, 3))].items()}})
    if not quick:
        # D: larger instance, inclusion by arrival bins, against the closed form the model checker proved
        from scipy.stats import binom
        k, n, M = 10, 300, 20000
        rng = random.Random(seed)
        for p in (None, 0.5, 1.0):
            pe = 1.0 / k if p is None else p
            cnt = [0] * (n + 1)
            random.seed(rng.randrange(2 ** 31))
            for _ in range(M):
                st = GS.make("geometric", k, False, p, positional=(_ % 2 == 1))
                for t in range(1, n + 1):
                    st.update({"id": t})
                for x in st.get_data()[0]:
                    cnt[x["id"]] += 1
            for lo in range(1, n + 1, 30):
                ts = range(lo, min(lo + 30, n + 1))
                exp = sum((pe * (1 - pe / k) ** (n - t)) if t > k else (1 - pe / k) ** (n - k) for t in ts) / len(ts)
                obs = sum(cnt[t] for t in ts)
                pv = dist.binom_two_sided_p(obs, M * len(ts), exp)
                ctx.count_clause("stat.geometric_inclusion")
                if pv < 1e-10:
                    ctx.violation("stat.geometric_inclusion", "k=10 p=%s" % p, "arrivals %d..%d: observed inclusion %g, law %g "
                                  "(p-value %g)" % (ts[0], ts[-1], obs / (M * len(ts)), exp, pv), {"k": k, "n": n, "p": p})
        ctx.add_stage("seeded statistics k=10 n=300 (inclusion by arrival bin, threshold 1e-10)", "statistics", runs=3 * M)
        ctx.evaluations += 3 * M
    ctx.assume("random.random() is uniform on [0,1) and random.randrange uniform; the acceptance region is located "
               "on a grid of 60 cells aligned with the tested p")
    return ctx.finish()
