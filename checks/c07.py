"""C07 - storages hold only observed data, within capacity, with targets aligned."""
import copy
import random

from harness import apalache, tlaps, core, tlc, tracecheck, gen_storages as GS
from harness.proxies import TapeMismatch

PID = "C07"


def run(tier, seed):
    ctx = core.Ctx(PID, tier, seed)
    quick = tier == "quick"
    rng = random.Random(seed)
    cfg = "MC_Storages_q" if quick else "MC_Storages_t"
    r = tlc.require_ok(tlc.run("MC_Storages", cfg, coverage=True, tag="c07mc"), cfg)
    if r.status != "ok":
        raise tlc.TLCError("storage specification violates %s\n%s" % (r.violated, r.counterexample[:2000]))
    ctx.add_tlc(cfg + ": SubMultiset Count Aligned BatchIsStream IntervalIsSuffix SequenceIsLast NewestOrUnchanged "
                "(5 kinds x capacity 1..3 x store_targets, every reservoir outcome)", r)
    ctx.exhaustive = True

    # direction A: behaviours replayed into the real classes
    cfg = "MC_Storages_emit" if quick else "MC_Storages_emit_t"
    r = tlc.require_ok(tlc.run("MC_Storages", cfg, workers=1, tag="c07emit"), cfg)
    states = r.json_prints()
    ctx.add_tlc("behaviour export " + cfg, r, kind="behaviour_export")
    nrep = nskip = 0
    for st in states:
        if st["n"] == 0:
            continue
        try:
            out = GS.replay_choices(st["kind"], st["cap"], st["targets"], st["choices"])
        except TapeMismatch:
            # the class draws its random outcome with other primitives than the script assumes (e.g. no acceptance draw at
            # all for p = 1): the behaviour cannot be followed, which is not a statement about the stored contents
            nskip += 1
            continue
        if out is None:
            nskip += 1
            continue
        nrep += 1
        ctx.nontrivial(("A", st["kind"], st["cap"], st["targets"], str(st["choices"])))
        sx, sy, ln = out[-1]
        if sx != st["sx"] or sy != st["sy"] or ln != len(st["sx"]):
            ctx.violation("replay.storage.content", "kind=%s targets=%s" % (st["kind"], st["targets"]),
                          "after choices %s: implementation holds x=%s y=%s len=%s, specification x=%s y=%s" % (
                              st["choices"], sx, sy, ln, st["sx"], st["sy"]), st)
    ctx.add_stage("spec->code replay (deterministic storages; geometric reservoir with p=1 and scripted slots)", "replay",
                  behaviours=nrep, not_scriptable=nskip)
    ctx.skip("behaviours with reservoir outcomes that cannot be scripted without assuming the acceptance test (covered by B)", nskip)
    ctx.traces += nrep
    ctx.evaluations += nrep
    ctx.sample({"direction": "A", "behaviour": states[-1]})

    # streams of ANY length (capacity <= 6): inductive invariants discharged by Apalache on the same kernels
    for cfg in ("sliding", "reservoir"):
        r = tlc.require_ok(tlc.run("MC_StoreIndTLC", "MC_StoreIndTLC_" + cfg, tag="c07ind"), cfg)
        if r.status != "ok":
            raise tlc.TLCError("StoreInd(%s) violates %s" % (cfg, r.violated))
        ctx.add_tlc("MC_StoreIndTLC_%s: KernelIsStorages (StoreInd's successors = Storages!Successors) IndInv C07" % cfg, r)
    apalache.inductive(ctx, "MC_StoreInd", "CInitSliding", "IndInit", "IndInv", "C07", "interval / sequence storage, Cap in 1..6",
                       negative_cinit="CInitSlidingBug")
    if not quick:
        apalache.inductive(ctx, "MC_StoreInd", "CInitReservoir", "IndInit", "IndInv", "C07", "reservoirs, every draw outcome, Cap in 1..6",
                           negative_cinit="CInitReservoirBug")
    else:
        apalache.inductive(ctx, "MC_StoreInd", "CInitReservoir", "IndInit", "IndInv", "C07", "reservoirs, every draw outcome, Cap in 1..6")
    # ... and for ANY capacity as well: machine-checked TLAPS proofs of the same invariants (StoreIndProof.tla; the TLC runs
    # above show that its actions are StoreInd's step and hence Storages!Successors)
    tlaps.prove(ctx, "StoreIndProof", "sliding storages and reservoirs: Init => Inv, Inv /\\ [Next]_vars => Inv', Inv => Observed /\\ "
                "AtMostOnce /\\ Count /\\ Aligned (/\\ LastCapInOrder), for every capacity >= 1 and every stream length")
    # direction B: seeded runs of all five classes, TLC infers the reservoir outcome of every step
    traces = []
    nruns = 60 if quick else 600
    for i in range(nruns):
        kind = ["batch", "interval", "sequence", "uniform", "geometric"][i % 5]
        cap = 1 if kind == "sequence" else rng.choice([1, 2, 3, 5, 8])
        p = rng.choice([None, 0.0, 0.25, 0.5, 1.0]) if kind == "geometric" else None
        n = rng.choice([cap, cap + 1, 2 * cap + 3, 40 if quick else 200, 150 if quick else 600])
        # a share of the reservoir runs draws legal but extreme outcomes (uniforms next to 0 and 1, first / last slot)
        traces.append(GS.record_run(kind, cap, rng.random() < 0.6, p, n, rng.randrange(2 ** 31),
                                    pass_y_keyword=rng.random() < 0.3, extreme=(kind in ("uniform", "geometric") and i % 2 == 0)))
    # the full product of the configuration dimensions on short streams (every class x store_targets x capacity x
    # constant probability incl. 0, default and 1 x duplicate feature vectors), so that no combination depends on a draw
    for kind in ("batch", "interval", "sequence", "uniform", "geometric"):
        for targets in (True, False):
            for cap in ((1,) if kind == "sequence" else (1, 3)):
                for p in ((None, 0.0, 0.5, 1.0, 1) if kind == "geometric" else (None,)):
                    for dup in (False, True):
                        traces.append(GS.record_run(kind, cap, targets, p, 3 * cap + 4, rng.randrange(2 ** 31), dup_x=dup))
    for j in range(16 if quick else 160):      # dedicated runs of the two reservoirs under extreme (legal) outcomes
        traces.append(GS.record_run(["uniform", "geometric"][j % 2], rng.choice([1, 2, 3]), rng.random() < 0.5,
                                    rng.choice([None, 0.5]) if j % 2 else None, 60, rng.randrange(2 ** 31), extreme=True))
    fails, res = tracecheck.validate("Trace_Storages", traces, lambda t: len(t["ev"]), tag="c07tr")
    nev = sum(len(t["ev"]) for t in traces)
    ctx.add_tlc("trace validation Trace_Storages (seeded runs of the five classes)", res, kind="trace_validation",
                traces=len(traces), events=nev)
    ctx.traces += len(traces)
    ctx.evaluations += nev
    ctx.count_clause("trace.storage.*", nev)
    for t in traces:
        ctx.nontrivial(("B", t["kind"], t["cap"], t["targets"], t["p"], len(t["ev"]), str(t["ev"][-1]["after"]["sx"])))
    seen = set()
    for (clause, tid, l) in sorted(fails, key=lambda f: (f[1], f[2])):
        if (clause, tid) in seen or not clause.startswith("storage."):      # draw.* clauses belong to C18
            continue
        seen.add((clause, tid))
        t = traces[tid]
        ctx.violation("trace." + clause, "kind=%s targets=%s" % (t["kind"], t["targets"]),
                      "update %d of a seeded run (cap=%d, p=%s, seed=%d): before %s after %s" % (
                          l, t["cap"], t["p"], t["seed"], t["ev"][l - 1]["before"], t["ev"][l - 1]["after"]),
                      {k: t[k] for k in ("kind", "cap", "targets", "p", "seed")} | {"update": l})
    ctx.sample({"direction": "B", "kind": traces[3]["kind"], "events": traces[3]["ev"][:4]})
    bad = copy.deepcopy([t for t in traces if t["targets"] and len(t["ev"]) > 2][:1])
    bad[0]["ev"][2]["after"]["sy"][0] += 1
    f2, _ = tracecheck.validate("Trace_Storages", bad, lambda t: len(t["ev"]), tag="c07self", workers=2)
    if not any(c == "storage.aligned" for (c, t, l) in f2):
        raise tlc.TLCError("binding self-test failed: misaligned target not rejected")
    ctx.add_stage("self-test: a target logged next to the wrong instance is rejected", "selftest", rejected=len(f2))
    return ctx.finish()
