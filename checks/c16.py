"""C16 - normalised importances and confidence bounds are well-formed for all values."""
import math
import random
import warnings
from fractions import Fraction as F

import numpy as np

from harness import core, tlc, gen_explainer as G, engine_explainer as E
from harness.fieldp import qpair

PID = "C16"


def _types():
    return [("int", int), ("float", float), ("Fraction", F), ("np.float64", np.float64), ("np.float32", np.float32),
            ("np.int64", np.int64), ("np.int32", np.int32), ("np.int8", np.int8),
            # normalising is invariant under scaling: tiny (or huge) raw values with a non-zero normaliser keep their ratios
            ("float*2^-70", lambda v: float(v) * 2.0 ** -70), ("np.float64*2^-40", lambda v: np.float64(v) * 2.0 ** -40),
            ("float*2^60", lambda v: float(v) * 2.0 ** 60)]


def norm_case(ctx, rec):
    from ixai.explainer.base import BaseIncrementalFeatureImportance as Base
    from ixai.explainer import IncrementalPFI
    vals = rec["vals"]
    want = [qpair(v) for v in rec["norm"]]
    names = ["f%d" % i for i in range(len(vals))]
    for tname, conv in _types():
        d = {nm: conv(v) for nm, v in zip(names, vals)}
        with warnings.catch_warnings():
            warnings.simplefilter("ignore")
            try:
                got = Base._normalize_importance_values(dict(d), mode=rec["mode"])
            except Exception as e:
                ctx.violation("norm.raises", "mode=%s type=%s" % (rec["mode"], tname), "%s for %s: %s" % (type(e).__name__, d, e), rec)
                continue
        ok = isinstance(got, dict) and set(got) == set(d)
        if ok:
            for nm, w in zip(names, want):
                g = got[nm]
                if not math.isfinite(float(g)) or abs(float(g) - float(w)) > 1e-6 * (1 + abs(float(w))):
                    ok = False
        ctx.count_clause("norm.values")
        if not ok:
            ctx.violation("norm.values", "mode=%s type=%s zero_normaliser=%s" % (rec["mode"], tname, rec["factor"] == 0),
                          "values %s (%s): normalised %s, specification %s" % (
                              vals, tname, {k: str(v) for k, v in got.items()} if isinstance(got, dict) else repr(got), [str(w) for w in want]),
                          rec)
    # through the public method of an explainer whose importance trackers hold exactly these values
    for dyn, unit in ((False, 1.0), (True, 1.0), (False, 2.0 ** -70), (True, 2.0 ** -45)):
        ex = IncrementalPFI(lambda x: {"output": 0.0}, lambda y, p: 0.0, names, dynamic_setting=dyn, smoothing_alpha=1.0)
        if not hasattr(ex, "_importance_trackers"):
            ctx.skip("norm.method (anchored attribute _importance_trackers not present)")
            continue
        ex._importance_trackers.update({nm: np.float64(v) * unit for nm, v in zip(names, vals)})
        with warnings.catch_warnings():
            warnings.simplefilter("ignore")
            try:
                got = ex.get_normalized_importance_values(mode=rec["mode"])
            except Exception as e:
                got = "%s: %s" % (type(e).__name__, str(e)[:120])
        if not isinstance(got, dict) or any(nm not in got for nm in names):
            ctx.count_clause("norm.method")
            ctx.violation("norm.method", "mode=%s zero_normaliser=%s unit=%g" % (rec["mode"], rec["factor"] == 0, unit),
                          "get_normalized_importance_values(%s) on tracked values %s gave %r instead of a dict over the feature names" % (
                              rec["mode"], vals, got), rec)
            continue
        bad = [nm for nm, w in zip(names, want) if not math.isfinite(float(got[nm])) or abs(float(got[nm]) - float(w)) > 1e-9 * (1 + abs(float(w)))]
        ctx.count_clause("norm.method")
        if bad:
            ctx.violation("norm.method", "mode=%s zero_normaliser=%s unit=%g" % (rec["mode"], rec["factor"] == 0, unit),
                          "get_normalized_importance_values(%s) on tracked values %s: %s, specification %s" % (
                              rec["mode"], vals, {k: float(v) for k, v in got.items()}, [str(w) for w in want]), rec)


def bound_case(ctx, rec):
    from ixai.explainer import IncrementalPFI
    b = rec["b"]
    var, alpha, t = qpair(b["var"]), qpair(b["alpha"]), b["t"]
    names = ["a", "b"]
    ex = IncrementalPFI(lambda x: {"output": 0.0}, lambda y, p: 0.0, names, dynamic_setting=True, smoothing_alpha=float(alpha))
    # exponential smoothing started at zero: one update with var/alpha leaves the tracked variance at var
    if not hasattr(ex, "_variance_trackers"):
        ctx.skip("bound.formula (anchored attribute _variance_trackers not present)")
        return
    ex._variance_trackers.update({nm: float(var / alpha) for nm in names})
    ex.seen_samples = t
    prev = None
    for (dl, sq) in rec["sq"]:
        delta, want_sq = float(qpair(dl)), float(qpair(sq))
        try:
            got = ex.get_confidence_bound(delta)
        except Exception as e:
            ctx.violation("bound.raises", "alpha=%s" % alpha, "%s: %s" % (type(e).__name__, e), rec)
            return
        ctx.count_clause("bound.formula")
        if not isinstance(got, dict) or any(nm not in got for nm in names):
            ctx.violation("bound.formula", "alpha=%s t=%s" % (alpha, t), "get_confidence_bound(%g) returned %r instead of a dict over the "
                          "feature names" % (delta, got), rec)
            return
        for nm in names:
            g = float(got[nm])
            resid = g - float(qpair(rec["decay"]))
            if not (math.isfinite(g) and g >= 0 and abs(resid * resid - want_sq) <= 1e-9 * (1 + want_sq)):
                ctx.violation("bound.formula", "alpha=%s t=%d" % (alpha, t),
                              "variance %s delta %s: bound %r, specification (1-alpha)^t + sqrt(%s) = %r" % (
                                  var, delta, g, qpair(sq), float(qpair(rec["decay"])) + math.sqrt(want_sq)), rec)
                return
        if prev is not None and any(float(got[nm]) > float(prev[nm]) + 1e-12 for nm in names):
            ctx.violation("bound.monotone", "alpha=%s" % alpha, "bound increases with delta", rec)
        prev = got


def reachable_states(ctx, rng, quick):
    """variances non-negative and bounds finite / positive / non-increasing in delta on states reached by streams"""
    n = 0
    for i in range(20 if quick else 200):
        sc = G.random_scenario(rng, quickness=1 if quick else 0)
        sc.numeric = "float"
        if sc.alpha is None:
            sc.alpha = F(1, 2)
        try:
            env = G.build(sc)
        except Exception:
            continue
        ex = env["ex"]
        random.seed(sc.seed)
        np.random.seed(sc.seed % 2 ** 32)
        for (xs, y, n_over, upd) in sc.stream:
            x = {nm: float(v) for nm, v in zip(env["names"], xs)}
            try:
                ex.explain_one(x, y, update_storage=upd)
            except Exception:
                break
            if ex.seen_samples < 2:
                continue
            n += 1
            vs = ex.variances
            if not isinstance(vs, dict):
                ctx.violation("variance.non_negative", E._config_key(sc), "variances is %r, not a dict of numbers" % (vs,), {"scenario": sc.to_json()})
                break
            if any(not (float(v) >= 0 and math.isfinite(float(v))) for v in vs.values()):
                ctx.violation("variance.non_negative", E._config_key(sc), "variances %s" % vs, {"scenario": sc.to_json()})
                break
            a = float(getattr(ex, "_smoothing_alpha", sc.alpha))
            prev = None
            for delta in (1e-3, 1e-2, 0.1, 0.5, 1.0):
                got = ex.get_confidence_bound(delta)
                if not isinstance(got, dict) or any(nm not in got for nm in env["names"]):
                    ctx.violation("bound.on_reachable_state", E._config_key(sc), "get_confidence_bound(%g) returned %r instead of a dict "
                                  "over the feature names" % (delta, got), {"scenario": sc.to_json()})
                    return n
                for nm in env["names"]:
                    want = (1 - a) ** ex.seen_samples + math.sqrt(float(vs[nm]) * a / ((2 - a) * delta))
                    g = float(got[nm])
                    if not (math.isfinite(g) and g >= 0 and abs(g - want) <= 1e-9 * (1 + abs(want))):
                        ctx.violation("bound.on_reachable_state", E._config_key(sc), "delta=%g feature %s: bound %r, formula %r" % (delta, nm, g, want),
                                      {"scenario": sc.to_json()})
                        return n
                if prev is not None and any(float(got[k]) > float(prev[k]) + 1e-12 for k in got):
                    ctx.violation("bound.monotone", E._config_key(sc), "bound increases with delta", {"scenario": sc.to_json()})
                prev = got
    return n


def run(tier, seed):
    ctx = core.Ctx(PID, tier, seed)
    quick = tier == "quick"
    rng = random.Random(seed)
    r = tlc.require_ok(tlc.run("NormConf", workers=1, tag="c16"), "NormConf")
    if r.status != "ok":
        raise tlc.TLCError("NormConf violates %s" % r.violated)
    ctx.add_tlc("NormConf: RatiosKept SumIsOne RangeIsOne ZeroFallbackAllZero BoundWellFormed (all dictionaries of <= 3 values in "
                "-2..2 x {sum, delta}; variance x alpha x t x delta grid)", r, kind="case_enumeration")
    ctx.exhaustive = True
    recs = r.json_prints()
    seen = set()
    nn = nb = 0
    for rec in recs:
        key = str(rec)
        if key in seen:
            continue
        seen.add(key)
        if rec["kind"] == "norm":
            norm_case(ctx, rec)
            nn += 1
            ctx.nontrivial(("N", str(rec["vals"]), rec["mode"]))
        else:
            bound_case(ctx, rec)
            nb += 1
            ctx.nontrivial(("B", str(rec["b"])))
    ctx.traces += nn + nb
    ctx.evaluations += nn * 8 + nb * 5
    ctx.add_stage("each TLC state as implementation test: normalisation with 6 numeric types + the public method; bound formula",
                  "replay", norm_cases=nn, bound_cases=nb)
    ctx.sample({"norm_case": next(x for x in recs if x["kind"] == "norm" and x["factor"] == 0 and len(x["vals"]) > 1)})
    ctx.sample({"bound_case": next(x for x in recs if x["kind"] == "bound")})
    n = reachable_states(ctx, rng, quick)
    ctx.add_stage("variances / confidence bounds on states reached by random float streams", "reachable_states", states=n)
    ctx.evaluations += n
    # VarNonNegative is also an invariant of the explainer specification
    rr = tlc.require_ok(tlc.run("MC_IncExplainer", "MC_IncExplainer_pfi_a", tag="c16mc"), "pfi_a")
    if rr.status != "ok":
        raise tlc.TLCError("IncExplainer violates %s" % rr.violated)
    ctx.add_tlc("MC_IncExplainer_pfi_a: VarNonNegative (among others)", rr)
    ctx.assume("confidence bounds are evaluated once a variance exists; tolerance 1e-9 relative (1e-6 for float32 inputs)")
    return ctx.finish()
