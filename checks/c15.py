"""C15 - explainer call contract: defaults, loss signature, names, evaluation budget."""
import random

from harness import core, tlc, engine_explainer as E, matrix_contract
from checks import _explainer as X

PID = "C15"


def wanted_replay(clause):
    # replay.draw_kind_range: the number of inner samples (constructor value / per-call override) fixes the draws of a call
    return clause in ("replay.seen", "replay.storage", "replay.draw_range")


def wanted_trace(clause, trace, call):
    return clause.startswith("contract.") or clause.startswith("first.") or clause.startswith("manual.")


def run(tier, seed):
    ctx = core.Ctx(PID, tier, seed)
    quick = tier == "quick"
    rng = random.Random(seed)
    X.mc_stage(ctx, ["sage_a", "pfi_a", "sage_o"] if quick else ["sage_a", "pfi_a", "sage_o", "pfi_o", "sage_def", "pfi_def", "sage_b", "sage_c", "pfi_b", "pfi_c"],
               "BudgetOnExplained FirstCallNoModel FirstCallSeedsOnly StoreOnce StoreAfterExplanation "
               "NeverOwnBackground SeenCountsReturns")
    X.live_stage(ctx)
    X.skeleton_stage(ctx, ["sage_o", "pfi_def"] if quick else ["sage_a", "pfi_a", "sage_o", "pfi_o", "sage_def", "pfi_def"])
    # storage / counter discipline as a refinement: a returning call is exactly one atomic Explain step (one storage
    # update after the explanation, counter + 1), a failing call changes neither storage nor estimates
    X.refine_stage(ctx, ["sage_o"] if quick else ["sage_a", "pfi_a", "sage_o", "pfi_o", "sage_def", "pfi_def", "sage_b", "pfi_b"])
    # the constructor / contract matrix: every TLC state is one implementation test
    r = tlc.require_ok(tlc.run("ContractMatrix", workers=1, tag="c15mx"), "ContractMatrix")
    items = r.json_prints()
    if len(items) != r.distinct or not items:
        raise tlc.TLCError("matrix export incomplete")
    ctx.add_tlc("ContractMatrix: %d configurations (class x names x d x setting x alpha x n_inner x parts)" % len(items), r,
                kind="case_enumeration")
    if quick:
        items = [it for i, it in enumerate(items) if i % 3 == seed % 3 or it["cfg"]["names"].startswith("mixed")]
    for it in items:
        c = it["cfg"]
        for (clause, detail) in matrix_contract.run_config(it):
            key = "%s names=%s%s" % (c["cls"], c["names"] if clause in ("matrix.explain", "matrix.keys") else "*",
                                     " setting=%s alpha=%s" % (c["setting"], c["alpha"]) if clause == "matrix.construct" else "")
            ctx.violation(clause, key, detail, {"matrix_item": it})
        ctx.nontrivial(("M", str(sorted(c.items()))))
    ctx.count_clause("matrix.*", len(items))
    ctx.traces += len(items)
    ctx.evaluations += len(items)
    ctx.sample({"matrix_item": items[len(items) // 2]})
    X.replay_stage(ctx, ["sage_q", "pfi_q", "sage_o"] if quick else ["sage_q", "pfi_q", "sage_o", "pfi_o", "sage_def", "sage_prod", "pfi_prod"],
                   wanted_replay, limit=400 if quick else 3000, rng=rng)
    n = 100 if quick else 1200
    scs = E.fault_free_batch(rng, n, quick)
    for i, sc in enumerate(scs):
        sc.names = ["str", "int", "float", "mixed", "mixed2"][i % 5]
        if sc.names == "mixed2":
            sc.d = min(sc.d, 4)
        if i % 7 == 0:
            sc.alpha = None          # constructor default
        if i % 11 == 0:
            sc.pass_dynamic = False
    traces, kept, fails = E.validate(ctx, scs, wanted_trace, "random configurations x name types: contract clauses",
                                     construct_violation=True)
    E.unexpected_errors(ctx, traces, kept)
    ctx.count_clause("trace.contract.*", sum(len(t["calls"]) for t in traces))
    if len(traces) > 1:
      ctx.sample({"direction": "B", "scenario": kept[1].key(), "call_2_order": traces[1]["calls"][1]["order"] if len(traces[1]["calls"]) > 1 else None})
    E.self_test(ctx, [s for s in scs if s.names in ("str", "int")][:3])
    ctx.assume("the evaluation budget 1 + d * n_inner applies to the default (marginal) imputer; DefaultImputer "
               "evaluates the model once per imputation (1 + d)")
    return ctx.finish()


def replay(path, tier, seed):
    import json
    ctx = core.Ctx(PID, tier, seed)
    d = json.load(open(path))
    rp = d.get("replay") or {}
    if "matrix_item" in rp:
        for (clause, detail) in matrix_contract.run_config(rp["matrix_item"]):
            ctx.violation(clause, d.get("key", ""), detail, rp)
        ctx.states = ctx.transitions = 1
        ctx.nontrivial("a"); ctx.nontrivial("b")
        ctx.sample(rp)
    else:
        X.replay_file(ctx, path, lambda c: wanted_replay(c) or c.startswith("trace.contract.") or c.startswith("trace.first."))
    return ctx.finish()
