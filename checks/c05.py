"""C05 - batch and interval SAGE: efficiency over explained data; interval schedule."""
import random
from fractions import Fraction as F

from harness import core, tlc, engine_batch as EB, gen_batch as GB

PID = "C05"


def wanted(clause):
    return clause.startswith("batch.") or clause.startswith("interval.") or clause.startswith("float.batch.")


def run(tier, seed):
    ctx = core.Ctx(PID, tier, seed)
    quick = tier == "quick"
    rng = random.Random(seed)
    for cfg in (["a", "b"] if quick else ["a", "b", "q", "c", "d"]):
        r = tlc.require_ok(tlc.run("IntervalSage", "IntervalSage_" + cfg, coverage=True, tag="c05is", timeout=900), cfg)
        if r.status != "ok":
            raise tlc.TLCError("IntervalSage(%s) violates %s\n%s" % (cfg, r.violated, r.counterexample[:2000]))
        ctx.add_tlc("IntervalSage_%s: SeenCountsCalls WindowIsLastK BatchEfficiency RecomputeIffScheduled "
                    "NoModelCallOffSchedule ScheduledRecomputes (all interleavings of force/update flags)" % cfg, r)
    for cfg in (["q"] if quick else ["q", "t", "t3"]):
        r = tlc.require_ok(tlc.run("MC_BatchSage", "MC_BatchSage_" + cfg, tag="c05bs", timeout=900), cfg)
        if r.status != "ok":
            raise tlc.TLCError("MC_BatchSage(%s) violates %s" % (cfg, r.violated))
        ctx.add_tlc("MC_BatchSage_%s: BatchEfficiency ValuesForAllFeatures (both modes, every order and row draw)" % cfg, r)
    ctx.exhaustive = True
    # A: behaviours of MC_BatchSage replayed into the real class
    cfg, d, n = ("emit", 2, 1) if quick else ("emit_t", 2, 2)
    r = tlc.require_ok(tlc.run("MC_BatchSage", "MC_BatchSage_" + cfg, workers=1, tag="c05emit"), cfg)
    recs = r.json_prints()
    if not quick and len(recs) > 3000:
        recs = rng.sample(recs, 3000)
    ctx.add_tlc("behaviour export MC_BatchSage_" + cfg, r, kind="behaviour_export", behaviours=len(recs))
    nskip = 0
    for rec in recs:
        probs, tr = EB.replay_batch_behaviour(rec, d, n)
        for (clause, detail) in probs:
            if clause in ("replay.batch.draw_range", "replay.batch.not_followed"):
                nskip += 1          # the draw ranges are judged by C04; the behaviour cannot be followed here
                continue
            ctx.violation(clause, "mode=%s" % rec["mode"], detail, {"batch_behaviour": rec, "d": d, "n": n})
        ctx.nontrivial(("A", str(rec["data"]), rec["mode"], str(rec["ps"]), str(rec["drs"])))
    if nskip:
        ctx.skip("behaviours the code could not follow because of its draw ranges (C04)", nskip)
    ctx.traces += len(recs)
    ctx.evaluations += len(recs)
    ctx.count_clause("replay.batch.*", len(recs))
    ctx.sample({"direction": "A", "behaviour": recs[len(recs) // 2]})
    # A for the schedule: every interleaving of (force, update) flags up to length 6 on the real IntervalSage
    scs = []
    L = 5 if quick else 7
    import itertools
    combos = list(itertools.product([(False, True), (True, True), (False, False), (True, False)], repeat=L))
    rng.shuffle(combos)
    for calls in combos[: (150 if quick else 2500)]:
        scs.append(EB.random_interval(rng, quick, calls=list(calls)))
    tr1, _ = EB.validate(ctx, scs, wanted, "enumerated (force, update_storage) interleavings on IntervalSage")
    EB.float_checks(ctx, tr1, scs, wanted)
    # B: random data sets / streams
    scs2 = [EB.random_batch(rng, quick) for _ in range(80 if quick else 800)] + \
           [EB.random_interval(rng, quick) for _ in range(40 if quick else 400)]
    tr2, _ = EB.validate(ctx, scs2, wanted, "random data sets (BatchSage, 4 entry points) and streams (IntervalSage)")
    EB.float_checks(ctx, tr2, scs2, wanted)
    nshape = sum(1 for t in tr1 + tr2 for c in t["calls"] if not c.get("shape_ok", True))
    if nshape:
        ctx.skip("recomputed calls whose callback stream could not be parsed (judged by C15)", nshape)
    ctx.sample({"direction": "B", "scenario": scs2[0].key(),
                "call": {k: v for k, v in tr2[0]["calls"][-1].items() if k in ("values", "rows", "recomputed", "exact")}})
    import copy
    bad = EB.strip([t for t in tr2 if any(c["recomputed"] and c["exact"] for c in t["calls"])][:1])
    for c in bad[0]["calls"]:
        if c["recomputed"] and c["exact"]:
            c["values"][0][1] = (c["values"][0][1] + 1) % 46337
            break
    from harness import tracecheck
    f2, _ = tracecheck.validate("Trace_BatchSage", bad, lambda t: len(t["calls"]), tag="c05self", workers=2)
    if not any(c in ("batch.per_feature", "batch.efficiency") for (c, t, l) in f2):
        raise tlc.TLCError("binding self-test failed: corrupted value not rejected")
    ctx.add_stage("self-test: corrupted importance value rejected", "selftest", rejected=len(f2))
    ctx.assume("BatchSage accumulates in floats: exact GF(p) validation for dyadic sizes (rows and n_inner powers of two), "
               "float tolerance 1e-9*scale*(rows+1) otherwise")
    ctx.assume("original mode: the explained feature names cover every feature the model reads")
    return ctx.finish()
