"""C08 - UniformReservoirStorage keeps a uniformly random subset of the stream."""
import math
import random
from fractions import Fraction as F

import numpy as np

from harness import core, tlc, dist, gen_storages as GS
from harness.fieldp import qpair
from harness.proxies import Tape

PID = "C08"
THRESH = 1e-10


def spec_law(cfg):
    """{n: {frozenset: Fraction}} exported by TLC from ReservoirLaw (Law = uniform)"""
    r = tlc.require_ok(tlc.run("ReservoirLaw", "ReservoirLaw_" + cfg, workers=1, tag="c08emit"), cfg)
    law = {}
    for rec in r.json_prints():
        d = {}
        for kk, m in zip(rec["keys"], rec["mass"]):
            s = frozenset(kk)
            d[s] = d.get(s, F(0)) + qpair(m)
        law[rec["n"]] = d
    return law, r


def sample_counts(k, n, M, seed, companions=0):
    """M independent seeded runs; with companions > 0 that many further reservoirs (other sizes) are alive and
    fed in lockstep, and a decoy reservoir is created mid-stream: every reservoir has to follow the law on its
    own (no state shared between objects)"""
    random.seed(seed)
    np.random.seed(seed % 2 ** 32)
    cnt = {}
    for _ in range(M):
        comp = [GS.make("uniform", 1 + (k + j) % 3, False) for j in range(companions)]
        targets = bool(_ % 2)
        st = GS.make("uniform", k, targets)
        comp += [GS.make("uniform", k, False) for j in range(1 if companions else 0)]
        for t in range(1, n + 1):
            for c in comp[: companions // 2 + 1] if companions else []:
                c.update({"id": t})
            if targets and _ % 4 == 3 and t % 3 == 0:
                st.update({"id": t}) if t % 2 else st.update({"id": t}, None)     # an arrival without a target is an arrival
            else:
                st.update({"id": t}, "y%d" % t)
            if _ % 3 == 1:
                st.get_data(), len(st)       # reading the content between updates changes nothing
            for c in comp[companions // 2 + 1:] if companions else []:
                c.update({"id": t})
            if companions and t == k + 1:
                GS.make("uniform", k, False)       # a decoy created while the others are mid-stream
        xs, ys = st.get_data()
        key = frozenset(x["id"] for x in xs)
        if targets and [(None if (_ % 4 == 3 and x["id"] % 3 == 0) else "y%d" % x["id"]) for x in xs] != list(ys):
            key = frozenset({-1})      # an (instance, target) pair that never occurred in the stream: not a subset of it
        cnt[key] = cnt.get(key, 0) + 1
    return cnt


def gap_whitebox(ctx, runs, seed):
    """After every acceptance the gap to the next accepted arrival must have been computed from the weight
    as it is *after* the update (anchored attributes _algo_wt / _algo_l_counter; skipped if absent)."""
    rng = random.Random(seed)
    nchecked = 0
    for r in range(runs):
        k = rng.choice([1, 2, 3, 5])
        s = rng.randrange(2 ** 31)
        random.seed(s)
        np.random.seed(s % 2 ** 32)
        with Tape(mode="log") as tape:
            st = GS.make("uniform", k, False)
            if not (hasattr(st, "_algo_wt") and hasattr(st, "_algo_l_counter")):
                ctx.skip("uniform.gap_uses_current_weight (anchored attributes not present)")
                return
            for t in range(1, 60):
                before = len(tape.log)
                c0 = st._algo_l_counter
                st.update({"id": t})
                c1 = st._algo_l_counter
                if c1 != c0:           # an acceptance happened: a new gap was drawn
                    w = float(st._algo_wt)
                    us = [e["v"] for e in tape.log[before:] if e["kind"] == "u01"]
                    gap = c1 - c0
                    ok = any(math.floor(math.log(u) / math.log(1 - w)) + 1 == gap for u in us if 0 < u < 1 and 0 < w < 1)
                    nchecked += 1
                    if not ok:
                        ctx.violation("uniform.gap_uses_current_weight", "k=%d" % k,
                                      "arrival %d (k=%d, seed=%d): new gap %s is not floor(log(u)/log(1-W))+1 for the updated "
                                      "weight W=%r and any uniform drawn in this update %r (the skip was computed from a stale "
                                      "weight)" % (t, k, s, gap, w, us), {"k": k, "seed": s, "arrival": t})
                        return
    ctx.count_clause("uniform.gap_uses_current_weight", nchecked)
    ctx.evaluations += nchecked
    ctx.add_stage("white-box: gap after each acceptance recomputed from the updated weight and the logged uniforms", "whitebox",
                  acceptances=nchecked)


def run(tier, seed):
    ctx = core.Ctx(PID, tier, seed)
    quick = tier == "quick"
    for cfg in (["uni_q", "uni_k1"] if quick else ["uni_q", "uni_k1", "uni_t"]):
        r = tlc.require_ok(tlc.run("ReservoirLaw", "ReservoirLaw_" + cfg, tag="c08mc"), cfg)
        if r.status != "ok":
            raise tlc.TLCError("ReservoirLaw(%s) violates %s" % (cfg, r.violated))
        ctx.add_tlc("ReservoirLaw_%s: UniformSubsets UniformInclusion Total KernelIsStorages" % cfg, r)
    r = tlc.require_ok(tlc.run("AlgorithmL", "AlgorithmL_FALSE", tag="c08al"), "AlgorithmL")
    if r.status != "ok":
        raise tlc.TLCError("AlgorithmL violates %s" % r.violated)
    ctx.add_tlc("AlgorithmL: SkipUsesCurrentWeight AcceptOnlyAtNext", r)
    rn = tlc.require_ok(tlc.run("AlgorithmL", "AlgorithmL_TRUE", tag="c08neg"), "AlgorithmL neg")
    if rn.status != "violation":
        raise tlc.TLCError("negative control StaleW not refuted")
    ctx.add_tlc("negative control StaleW refuted (SkipUsesCurrentWeight)", rn, kind="negative_control")
    ctx.exhaustive = True

    M = 40000 if quick else 400000
    cells = 0
    for cfg, k, n in (("uni_emit1", 1, 3), ("uni_emit2", 2, 5), ("uni_emit3", 3, 7)):
        law, r = spec_law(cfg)
        ctx.add_tlc("law export ReservoirLaw_%s" % cfg, r, kind="behaviour_export")
        want = law[n]
        ncell = len(want)
        for companions in (0, 2):
            runs = M if companions == 0 else M // 2
            cnt = sample_counts(k, n, runs, seed + 17 * k + companions, companions)
            where = "k=%d n=%d%s" % (k, n, " with live companion reservoirs" if companions else "")
            for s_ in set(cnt) - set(want):
                ctx.violation("stat.uniform_subsets", where, "reservoir content %s has probability 0 in the law" % sorted(s_),
                              {"k": k, "n": n, "M": runs, "companions": companions})
            worst = (1.0, None)
            for s_, pr in want.items():
                obs = cnt.get(s_, 0)
                pv = dist.binom_two_sided_p(obs, runs, float(pr))
                cells += 1
                if pv < worst[0]:
                    worst = (pv, (sorted(s_), obs / runs, float(pr)))
                if pv < THRESH:
                    ctx.violation("stat.uniform_subsets", where,
                                  "subset %s kept in %d of %d runs (%.4f), law %.4f, exact binomial p-value %.3g" % (
                                      sorted(s_), obs, runs, obs / runs, float(pr), pv),
                                  {"k": k, "n": n, "M": runs, "seed": seed + 17 * k + companions, "companions": companions})
            ctx.add_stage("seeded statistics %s: %d runs, %d subsets, smallest p-value %.3g at %s" % (where, runs, ncell, worst[0], worst[1]),
                          "statistics", runs=runs, cells=ncell)
            ctx.nontrivial(("D", k, n, companions))
            ctx.evaluations += runs
            ctx.traces += runs
        ctx.sample({"k": k, "n": n, "law_of_one_subset": str(list(want.values())[0]),
                    "observed": {str(sorted(s_)): c for s_, c in list(cnt.items())[:4]}})
    # larger instances: inclusion k/n by arrival decile
    # (the size also given as NumPy integer scalars of every width, positionally: streams longer than the type's range)
    big = [(10, 200, 3000, int, False), (5, 300, 1200, np.int8, False), (5, 300, 1200, np.uint8, True), (6, 400, 800, np.int16, False)] if quick \
        else [(10, 200, 30000, int, False), (100, 1000, 2000, int, True), (5, 300, 12000, np.int8, False), (5, 300, 12000, np.uint8, True),
              (6, 400, 8000, np.int16, False), (7, 300, 8000, np.int64, True), (3, 70000, 40, np.uint16, False)]
    for (k, n, MM, conv, positional) in big:
        random.seed(seed + k)
        np.random.seed((seed + k) % 2 ** 32)
        cnt = [0] * (n + 1)
        raised = 0
        for _ in range(MM):
            st = GS.make("uniform", k, False, conv=conv, positional=positional)
            try:
                for t in range(1, n + 1):
                    st.update({"id": t})
                    if _ % 2:
                        st.get_data()        # a reader after every update (what an explainer's imputer does)
            except Exception as e:
                raised += 1
                if raised == 1:
                    ctx.violation("stat.update_raises", "k=%d n=%d size given as %s" % (k, n, conv.__name__),
                                  "update %d raised %s: %s" % (t, type(e).__name__, str(e)[:200]), {"k": k, "n": n})
                continue
            for x in st.get_data()[0]:
                cnt[x["id"]] += 1
        width = n // 10
        for b in range(10):
            ts = range(b * width + 1, (b + 1) * width + 1)
            obs = sum(cnt[t] for t in ts)
            pv = dist.binom_two_sided_p(obs, MM * k, len(ts) / n)   # each run keeps k items; share of this decile
            cells += 1
            if pv < THRESH:
                ctx.violation("stat.uniform_inclusion", "k=%d n=%d size given as %s" % (k, n, conv.__name__), "arrival decile %d: share %.4f of kept items, "
                              "law %.4f, p-value %.3g" % (b + 1, obs / (MM * k), len(ts) / n, pv), {"k": k, "n": n, "M": MM})
        ctx.evaluations += MM
        ctx.add_stage("seeded statistics k=%d (%s%s) n=%d inclusion by arrival decile" % (k, conv.__name__, ", positional" if positional else "", n),
                      "statistics", runs=MM)
    ctx.count_clause("stat.uniform_*", cells)
    gap_whitebox(ctx, 40 if quick else 400, seed)
    ctx.assume("decided statistically on the code side (the weight W of Algorithm L is a continuous hidden variable): "
               "exact binomial tails, threshold 1e-10 per cell, deterministic for a given VERIF_SEED; Python's and "
               "NumPy's global generators are trusted to be uniform")
    return ctx.finish()
