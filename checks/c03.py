"""C03 - incremental SAGE credits each feature its loss reduction along the random chain."""
import random

from harness import core, engine_explainer as E
from checks import _explainer as X

PID = "C03"


def wanted_replay(clause):
    return clause.startswith("replay.state.") or clause in ("replay.seen", "replay.outcome")


def wanted_trace(clause, trace, call):
    return trace["cls"] == "sage" and clause.startswith("sage.")


def run(tier, seed):
    ctx = core.Ctx(PID, tier, seed)
    quick = tier == "quick"
    rng = random.Random(seed)
    X.mc_stage(ctx, ["sage_a"] if quick else ["sage_a", "sage_b", "sage_c", "sage_d", "sage_e", "sage_o", "sage_def"],
               "ContributionDefinition ChainEndsAtModelLoss RunningStatistic VarNonNegative LockStep")
    if not quick:
        X.abs_stage(ctx, ["sage_a", "sage_w", "sage_p", "sage_def"])
        X.refine_stage(ctx, ["sage_a", "sage_o", "sage_def"])
    X.replay_stage(ctx, ["sage_q"] if quick else ["sage_q", "sage_a", "sage_prod", "sage_d3", "sage_o", "sage_def"], wanted_replay,
                   limit=None if quick else 3000, rng=rng)
    n = 120 if quick else 1500
    scs = E.fault_free_batch(rng, n, quick, cls="sage")
    for i, sc in enumerate(scs):
        if i % 10 == 5:
            sc.names = "mixed"
    traces, kept, fails = E.validate(ctx, scs, wanted_trace, "fault-free SAGE scenarios (scalar and growing multi-label outputs)")
    ctx.count_clause("trace.sage.*", sum(1 for t in traces for c in t["calls"] if c["pre"]["seen"] >= 1 and c["outcome"] == "ret"))
    if traces:
      ctx.sample({"direction": "B", "scenario": kept[0].key(),
                "call_2": {k: traces[0]["calls"][1][k] for k in ("imputes", "losses", "perms")} if len(traces[0]["calls"]) > 1 else None})
    nf = 0
    for sc in scs[: (25 if quick else 250)]:
        if sc.names == "mixed":
            continue
        probs, xe, xf = E.twin_float(ctx, sc, "sage")
        nf += 1
        if probs:
            ctx.violation("float.sage_values", E._config_key(sc), "; ".join(probs[:3]), {"scenario": sc.to_json()})
    ctx.add_stage("float twin runs vs exact runs (importance, variance, losses)", "float_twin", scenarios=nf)
    ctx.evaluations += nf
    E.self_test(ctx, [s for s in scs if s.names != "mixed"][:3])
    return ctx.finish()


def replay(path, tier, seed):
    ctx = core.Ctx(PID, tier, seed)
    X.replay_file(ctx, path, lambda c: wanted_replay(c) or c.startswith("trace.sage."))
    return ctx.finish()
