"""C01 - incremental SAGE values always sum to the explained loss (efficiency)."""
import math
import random

from harness import tlaps, core, tlc, engine_explainer as E, gen_explainer as G
from checks import _explainer as X

PID = "C01"


def wanted_replay(clause):
    return clause == "replay.efficiency"


def wanted_trace(clause, trace, call):
    return clause == "efficiency"


def float_identity(ctx, scenarios):
    """twin float runs: |sum(importance_values) - explained_loss| within rounding, via the public properties"""
    n = 0
    for sc in scenarios:
        scf = G.Scenario.from_json(sc.to_json())
        scf.numeric = "float"
        env = G.build(scf)
        ex = env["ex"]
        random.seed(scf.seed)
        import numpy as np
        np.random.seed(scf.seed % 2 ** 32)
        mag = 1.0
        for i, (xs, y, n_over, upd) in enumerate(scf.stream):
            x = {nm: float(v) for nm, v in zip(env["names"], xs)}
            kw = {} if n_over in (None, "manual") else {"n_inner_samples": n_over}
            try:
                if n_over == "manual":
                    ex.update_storage(x, y)
                    vals = ex.importance_values
                else:
                    vals = ex.explain_one(x, y, update_storage=upd, **kw)
            except Exception:
                break
            if not isinstance(vals, dict):
                ctx.violation("float.efficiency", E._config_key(sc), "call %d: explain_one returned %r instead of the importance values"
                              % (i + 1, vals), {"scenario": sc.to_json()})
                break
            tot = sum(float(v) for v in vals.values())
            el = float(ex.explained_loss)
            mag = max(mag, abs(float(ex.marginal_loss)), abs(float(ex.model_loss)), max([abs(float(v)) for v in vals.values()] + [0]))
            tol = 256 * 2.0 ** -52 * (i + 2) * (len(vals) + 2) * mag * 64
            n += 1
            if not (math.isfinite(tot) and abs(tot - el) <= tol):
                ctx.violation("float.efficiency", E._config_key(sc),
                              "call %d: sum(importance_values)=%r explained_loss=%r tol=%g" % (i + 1, tot, el, tol),
                              {"scenario": scf.to_json(), "call": i + 1})
                break
    ctx.add_stage("float twin runs: |sum(importance_values) - explained_loss| <= tol via public properties", "float_twin", calls=n)
    ctx.evaluations += n
    ctx.count_clause("float.efficiency", n)


def run(tier, seed):
    ctx = core.Ctx(PID, tier, seed)
    quick = tier == "quick"
    rng = random.Random(seed)
    X.mc_stage(ctx, ["sage_a"] if quick else ["sage_a", "sage_b", "sage_c", "sage_d", "sage_e"],
               "Efficiency (all prefixes, all orders and row draws, after faults) + LockStep ChainEndsAtModelLoss")
    # streams of ANY length: the algebraic core of the identity (telescoping chain + all trackers the same linear map) proved
    # with TLAPS for d = 3 and arbitrary tracker coefficients; CommitIsLinear (a TLC action property of every MC_IncExplainer
    # configuration above) shows that the commit step of the specification has the form the proof assumes
    tlaps.prove(ctx, "EffProof", "Init /\\ [][Next]_vars => []Efficiency for d = 3, any linear tracker update, any order, any chain "
                "of loss values, any number of explained observations")
    X.abs_stage(ctx, ["sage_q"] if quick else ["sage_q", "sage_a", "sage_w", "sage_p", "sage_d3", "sage_def"])
    X.refine_stage(ctx, ["sage_a"] if quick else ["sage_a", "sage_b", "sage_c", "sage_d", "sage_e"])
    X.replay_stage(ctx, ["sage_q"] if quick else ["sage_q", "sage_a", "sage_prod", "sage_d3"], wanted_replay,
                   limit=None if quick else 3000, rng=rng)
    n = 120 if quick else 1500
    scs = E.fault_free_batch(rng, n, quick, cls="sage")
    for i, sc in enumerate(scs):
        if i % 10 == 0:
            sc.names = "mixed"
    traces, kept, fails = E.validate(ctx, scs, wanted_trace, "fault-free SAGE scenarios (efficiency monitor on every logged state)")
    ctx.count_clause("trace.efficiency", sum(len(t["calls"]) for t in traces))
    nerr = sum(1 for t in traces for c in t["calls"] if c["outcome"] != "ret")
    if nerr:
        ctx.skip("calls that raised (judged by C15/C17, not by C01)", nerr)
    if traces:
      ctx.sample({"direction": "B", "scenario": kept[0].key(), "call_2": {k: traces[0]["calls"][1][k] for k in ("pre", "post", "order")} if len(traces[0]["calls"]) > 1 else None})
    float_identity(ctx, scs[: (30 if quick else 300)])
    E.self_test(ctx, [s for s in scs if s.names != "mixed"][:3])
    ctx.assume("exact identity checked in GF(46337) on Fraction runs; float identity with tolerance "
               "256*eps*(calls+2)*(d+2)*64*max|value|")
    ctx.assume("callbacks are deterministic functions of their arguments")
    return ctx.finish()


def replay(path, tier, seed):
    ctx = core.Ctx(PID, tier, seed)
    X.replay_file(ctx, path, lambda c: c in ("replay.efficiency", "trace.efficiency"))
    return ctx.finish()
