"""C12 - MultiValueTracker: independent per-key statistics, zero-fill, safe normalising."""
import copy
import math
import random
import warnings
from fractions import Fraction as F

from harness import apalache, tlaps, core, tlc, tracecheck, gen_trackers
from harness.fieldp import qpair

PID = "C12"
ALPHA = F(2, 5)


def _types():
    import numpy as np
    return [("Fraction", F, True), ("int", int, False), ("float", float, False),
            ("np.float64", np.float64, False), ("np.int64", np.int64, False), ("np.float32", np.float32, False),
            # magnitudes: the stream scaled by a power of two (exact in binary floating point); tiny sums are sums, not zeros
            ("float*2^-70", lambda v: float(v) * 2.0 ** -70, False), ("np.float64*2^55", lambda v: np.float64(v) * 2.0 ** 55, False),
            ("np.int32", np.int32, False), ("np.int8", np.int8, False)]


def _unit(name):
    return 2.0 ** -70 if name.endswith("2^-70") else 2.0 ** 55 if name.endswith("2^55") else 1.0



def _replay_state(st):
    """Direction A: one specification behaviour (sequence of update dicts) through the real class,
    once per numeric value type."""
    from ixai.utils.tracker import WelfordTracker, ExponentialSmoothingTracker, MultiValueTracker
    problems = []
    want_get = {k: qpair(v) for k, v in (st["get"] or {}).items()}
    want_norm = {k: qpair(v) for k, v in (st["norm"] or {}).items()}
    for ti, (name, conv, exact) in enumerate(_types()):
        # keys: the specification's names, or (every other value type) keys of mixed Python types that cannot be
        # ordered among each other
        km = (lambda k: k) if ti % 2 == 0 else (lambda k: {"a": 0, "b": "b", "c": 2.5, "d": (1, 2)}.get(k, k))
        base = ExponentialSmoothingTracker(alpha=ALPHA if exact else float(ALPHA)) if st["kind"] == "es" \
            else WelfordTracker()
        m = MultiValueTracker(base)
        try:
            for u in st["upds"]:
                m.update({km(k): conv(v) for k, v in (u or {}).items()})
                if m.get() != m():
                    problems.append(("accessors." + name, str(m.get()), str(m())))
                    break
            with warnings.catch_warnings():
                warnings.simplefilter("ignore")
                got = m.get()
                norm = m.get_normalized()
            inv = {km(k): k for k in want_get}
            got = {inv.get(k, k): v for k, v in got.items()}
            norm = {inv.get(k, k): v for k, v in norm.items()}
        except Exception as e:     # values of any real numeric type are accepted
            problems.append(("raises." + name, "%s: %s" % (type(e).__name__, str(e)[:120]), "no exception"))
            continue
        if m.N != st["n"]:
            problems.append(("count." + name, m.N, st["n"]))
        if set(got) != set(want_get) or set(norm) != set(want_norm):
            problems.append(("keys." + name, sorted(map(str, got)), sorted(want_get)))
            continue
        tol = 1e-5 if name == "np.float32" else 1e-9
        for k in want_get:
            g, n = got[k], norm[k]
            if exact:
                if F(g) != want_get[k]:
                    problems.append(("get." + name, str(g), str(want_get[k])))
                if F(n) != want_norm[k]:
                    problems.append(("normalized." + name, str(n), str(want_norm[k])))
            else:
                g = float(g) / _unit(name)
                if not (math.isfinite(float(g)) and abs(float(g) - float(want_get[k])) <= tol):
                    problems.append(("get." + name, float(g), float(want_get[k])))
                # a zero sum in exact arithmetic may be a rounding residue in floats; the property then only
                # promises "all zeros rather than NaN" for an exactly-zero float sum, so finiteness is required
                # always and the value only when the float sum is well away from zero
                if len(want_get) <= 1:
                    n = float(n) / _unit(name)        # with at most one key the normalised view is the raw value
                if not math.isfinite(float(n)):
                    problems.append(("normalized_finite." + name, float(n), float(want_norm[k])))
                else:
                    tot = sum(float(x) for x in got.values()) / _unit(name)
                    exact_tot = sum(want_get.values())
                    if (exact_tot == 0 and tot == 0) or (exact_tot != 0 and abs(tot) > 1e-6):
                        if abs(float(n) - float(want_norm[k])) > tol * (1 + abs(float(want_norm[k]))) * 100:
                            problems.append(("normalized." + name, float(n), float(want_norm[k])))
    return problems


def _independent_copies(st):
    """One independent copy of the base tracker per key, whatever state the base tracker carries: with a base
    tracker that holds mutable state (SlidingWindowTracker's buffer, a list) every key must still behave like a
    stand-alone tracker fed the values of that key since it first appeared (0 where an update omits it)."""
    import copy
    import math
    from ixai.utils.tracker import SlidingWindowTracker, MultiValueTracker
    from ixai.utils.tracker.base import Tracker

    class ListTracker(Tracker):
        def __init__(self):
            super().__init__()
            self.items = []

        def update(self, v):
            self.items.append(v)
            self.tracked_value = sum(self.items) + 0.5 * len(self.items)
            self.N += 1
            return self

    problems = []
    since = st.get("since") or {}
    for name, base in (("SlidingWindowTracker(2)", lambda: SlidingWindowTracker(2)), ("list-state tracker", ListTracker)):
        m = MultiValueTracker(base())
        for u in st["upds"]:
            m.update({k: float(v) for k, v in (u or {}).items()})
        got = m.get()
        for k, seq in since.items():
            ref = base()
            for v in seq:
                ref.update(float(v))
            want = ref.get()
            g = got.get(k)
            if g is None or not (abs(float(g) - float(want)) <= 1e-9 or (math.isnan(float(g)) and math.isnan(float(want)))):
                problems.append(("independent_copy", "%s key %s: %r, stand-alone tracker fed %s gives %r" % (name, k, g, seq, want)))
                break
    return problems


def run(tier, seed):
    ctx = core.Ctx(PID, tier, seed)
    quick = tier == "quick"
    rng = random.Random(seed)

    cfg = "MC_MultiValue_q" if quick else "MC_MultiValue_t"
    r = tlc.require_ok(tlc.run("MC_MultiValue", cfg, coverage=True, tag="c12mc"), cfg)
    ctx.add_tlc(cfg + ": PerKeySinceFirst NCountsCalls KeysAreAllSeen KeysMonotone NormSumsToOne NormKeepsRatios "
                "NormZeroSumAllZero NormSingleKeyRaw", r)
    if r.status != "ok":
        raise tlc.TLCError("specification violates its own property %s\n%s" % (r.violated, r.counterexample))
    ctx.exhaustive = True

    # update sequences of ANY length: the counting skeleton (keys never dropped, count = calls, per-key count = calls since
    # the key first appeared) is an inductive invariant (Apalache), on a skeleton TLC shows to be the counting part of MVUpd
    rr = tlc.require_ok(tlc.run("MC_MVIndTLC", "MC_MVIndTLC", tag="c12ind"), "MC_MVIndTLC")
    if rr.status != "ok":
        raise tlc.TLCError("MVInd violates %s" % rr.violated)
    ctx.add_tlc("MC_MVIndTLC: SkeletonIsMVUpd IndInv PerKeySinceFirst KeysMonotone", rr)
    apalache.inductive(ctx, "MC_MVInd", "CInitOK", "IndInit", "IndInv", "PerKeySinceFirst", "3 keys, any number of updates",
                       negative_cinit="CInitBug")
    tlaps.prove(ctx, "MVIndProof", "counting invariant of MultiValueTracker inductive for every key set and every number of updates")
    cfg = "MC_MultiValue_emit" if quick else "MC_MultiValue_emit_t"
    r = tlc.require_ok(tlc.run("MC_MultiValue", cfg, workers=1, tag="c12emit"), cfg)
    states = r.json_prints()
    if len(states) != r.distinct:
        raise tlc.TLCError("exported %d states, TLC found %d" % (len(states), r.distinct))
    ctx.add_tlc("behaviour export " + cfg, r, kind="behaviour_export")
    if not quick:
        pass
    for st in states:
        for (clause, got, want) in _replay_state(st):
            ctx.violation("replay." + clause, "kind=%s updates=%s" % (st["kind"], st["upds"]),
                          "implementation %s, specification %s" % (got, want), st)
        if st["kind"] == "welford":       # once per behaviour
            for (clause, detail) in _independent_copies(st):
                ctx.violation("replay." + clause, "updates=%s" % st["upds"], detail, st)
            ctx.count_clause("replay.independent_copy")
        ctx.count_clause("replay.mv", 6)
        if len(st["upds"]) >= 2:
            ctx.nontrivial(("A", st["kind"], str(st["upds"])))
    ctx.traces += len(states)
    ctx.evaluations += len(states) * 6
    ctx.add_stage("spec->code replay, 6 numeric value types", "replay", behaviours=len(states))
    ctx.sample({"direction": "A", "behaviour": states[len(states) // 3]})

    nt, ln = (40, 25) if quick else (400, 60)
    try:
        traces = gen_trackers.mv_traces(rng, nt, ln) + gen_trackers.mv_traces(rng, 4 if quick else 30, 150 if quick else 400)
    except gen_trackers.NotADict as e:
        ctx.violation("trace.mv.accessors_return_dicts", "MultiValueTracker", str(e), None)
        return ctx.finish()
    fails, res = tracecheck.validate("Trace_Trackers", traces, lambda t: len(t["ev"]), tag="c12tr")
    nev = sum(len(t["ev"]) for t in traces)
    ctx.add_tlc("trace validation Trace_Trackers (MultiValueTracker, GF(p))", res, kind="trace_validation",
                traces=len(traces), events=nev)
    ctx.traces += len(traces)
    ctx.evaluations += nev
    ctx.count_clause("trace.mv.*", nev)
    sk = sum(1 for t in traces for e in t["ev"] if not e["normok"])
    if sk:
        ctx.skip("trace.mv.normalized (zero test differs between Q and GF(p))", sk)
    for t in traces:
        ctx.nontrivial(("B", t["kind"], t["meta"]["alpha"], str(t["meta"]["pool"]), str(t["ev"][-1]["get"])))
    for (clause, tid, l) in fails:
        ctx.violation("trace." + clause, "kind=%s" % traces[tid]["kind"],
                      "event %d of trace %d: logged post-state / views are not the specification's" % (l, tid),
                      {"trace": traces[tid], "event": l})
    ctx.sample({"direction": "B", "first_events": traces[0]["ev"][:2]})

    bad = copy.deepcopy(traces[:1])
    ev = next(e for e in bad[0]["ev"] if e["post"])
    ev["post"][0][1][1] = (ev["post"][0][1][1] + 1) % 46337
    f2, _ = tracecheck.validate("Trace_Trackers", bad, lambda t: len(t["ev"]), tag="c12self", workers=2)
    if not any(c == "mv.values" for (c, t, l) in f2):
        raise tlc.TLCError("binding self-test failed: corrupted tracker value not rejected (%r)" % (f2,))
    ctx.add_stage("self-test: corrupted per-key value rejected", "selftest", rejected=len(f2))
    ctx.assume("float/NumPy comparisons: tolerance 1e-9 (1e-5 for float32); a normalised value is compared only "
               "when the float sum is exactly zero or clearly non-zero; finiteness is always required")
    return ctx.finish()
