---------------------------- MODULE Trace_C20 ----------------------------
(* C20 (reduced scope): float Welford / exponential-smoothing results on offset-ill-        *)
(* conditioned short streams  v_i = s * (c + delta_i),  c = 2^e,  |delta_i| <= 6,  n <= 32.  *)
(* The harness only re-represents the double results (divide by the power of two s, subtract *)
(* c, scale by Q = 2^(53-e)); this module computes the exact values from (c, delta) by the   *)
(* shift lemmas (invariants ShiftMean / ShiftVar / ShiftES of MC_Trackers) and evaluates the  *)
(* property's error bounds in integer arithmetic below 2^31 (DESIGN.md Appendix C), C = 8.   *)
EXTENDS TraceBase, FiniteSetsExt, SequencesExt
VARIABLES tid, l
vars == <<tid, l>>
Init == tid \in 1..Len(Traces) /\ l = 1
Tr == Traces[tid]
Ck(name, ok) == Check(name, tid, l, ok)
CC == 8
RECURSIVE Pow(_, _)
Pow(a, b) == IF b = 0 THEN 1 ELSE a * Pow(a, b - 1)
Abs(x) == IF x < 0 THEN -x ELSE x
CeilDiv(a, b) == (a + b - 1) \div b
Stream(ev) ==
   LET d == ev.deltas  n == Len(d)  e == ev.e
       Q == Pow(2, 53 - e)  c == Pow(2, e)
       D == FoldSeq(LAMBDA x, acc : x + acc, 0, d)
       S2 == FoldSeq(LAMBDA x, acc : x * x + acc, 0, d)
       varnum == n * S2 - D * D                                  \* n^2 * population variance
       r16 == CHOOSE j \in 0..96 : j * j * n * n <= 256 * varnum /\ (j + 1) * (j + 1) * n * n > 256 * varnum
   IN /\ Ck("float.finite", ev.finite)
      \* |mean_f - mean| <= C n u max|v|      (scaled by Q n)
      \* mean_k = floor((mean_f / s - c) * 2^23); one unit of slack per value for the floor
      /\ Ck("float.welford_mean", Abs(ev.mean_k * n - D * 8388608) <= CeilDiv(CC * n * n, Q \div 8388608) + n + 1)
      \* |var_f - var| <= C n u kappa var      (scaled by 2^14 n^2), kappa = sqrt(1 + mean^2 / var)
      /\ Ck("float.welford_variance",
            Abs(ev.vq * n * n - varnum * 16384) <= CeilDiv(CC * n * n * n * r16, Q \div 1024) + 2 * n * n)
      /\ Ck("float.welford_constant_stream", varnum = 0 => ev.vq = 0)
      /\ ev.has_es =>
           LET k == ev.k  m == k * n
               T == Pow(2, e - m) * Pow(Pow(2, k) - 1, n)
               N == FoldSeq(LAMBDA i, acc : Pow(Pow(2, k) - 1, n - i) * Pow(2, k * (i - 1)) * d[i] + acc, 0, [i \in 1..n |-> i])
           IN \* |es_f - es| <= C u max|v| / alpha      (scaled by Q)
              Ck("float.smoothing", Abs((ev.ip - c + T) * Q + ev.fq - N * (Q \div Pow(2, m))) <= CC * Pow(2, k) + 2)
Next == /\ l <= Len(Tr.ev) /\ Stream(Tr.ev[l]) /\ l' = l + 1 /\ UNCHANGED tid
Spec == Init /\ [][Next]_vars
===========================================================================
