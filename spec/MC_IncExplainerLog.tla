---------------------------- MODULE MC_IncExplainerLog ----------------------------
(* Behaviour export for direction A (spec -> code): the specification of IncExplainer   *)
(* extended with a history variable that records, at the end of every explain_one call,  *)
(* the environment choices of that call (item, flag, feature order, row draws, reservoir *)
(* outcome, the ordinal of the callback that raised) and the resulting abstract state.   *)
(* Complete behaviours are printed as JSON from terminal states.                         *)
EXTENDS MC_IncExplainer, Json
VARIABLE log
CallRecord == [x |-> cur[1], y |-> cur[2], upd |-> upd, n |-> ncur, order |-> order, rows |-> rows, choice |-> schoice,
               fault |-> fcb, outcome |-> outcome, seen |-> seen,
               imp |-> T!MVGet(imp), var |-> T!MVGet(var), ml |-> ml.val, mo |-> mo.val,
               mp |-> T!MVGet(mp), margPred |-> margPred, store |-> store.sx]
LInit == Init /\ log = <<>>
LNext == /\ Next
         /\ log' = IF pc # "idle" /\ pc' = "idle" THEN Append(log, CallRecord') ELSE log
LSpec == LInit /\ [][LNext]_<<vars, log>>
Terminal == pc = "idle" /\ ncalls = MaxCalls
Emit == Terminal => PrintT(ToJson(log))
====================================================================================
