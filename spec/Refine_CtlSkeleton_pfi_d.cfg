SPECIFICATION Spec
CONSTANTS
 Mode = "pfi"
 D = 2
 NInner = 1
 Kind = "welford"
 Alpha <- A_1_2
 StoreKind = "batch"
 Cap = 2
 Strategy = "joint"
 NOver = 0
 ModelKind = "scalar"
 CommitEarly = FALSE
 MaxCalls = 4
 MaxFaults = 2
 AllowNoUpd = FALSE
PROPERTY ImplementsSkeleton
CHECK_DEADLOCK FALSE
