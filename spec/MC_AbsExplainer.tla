---------------------------- MODULE MC_AbsExplainer ----------------------------
(* Model-checking wrapper of the atomic specification. *)
EXTENDS AbsExplainer
A_1_2 == <<1, 2>>
A_1_3 == <<1, 3>>
A_1_1 == <<1, 1>>
A_2_5 == <<2, 5>>
BoundedNext == ANext /\ aseen' <= MaxCalls
BSpec == AInit /\ [][BoundedNext]_avars
=================================================================================
