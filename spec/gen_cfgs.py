#!/usr/bin/env python3
"""Generates the model-checking configuration files of IncExplainer (committed next to this script)."""
import os
HERE = os.path.dirname(os.path.abspath(__file__))
INV = ["Efficiency", "FaultAtomic", "LockStep", "RunningStatistic", "VarNonNegative", "ContributionDefinition",
       "ChainEndsAtModelLoss", "BudgetOnExplained", "FirstCallNoModel", "FirstCallSeedsOnly", "StoreOnce",
       "NeverOwnBackground"]
PROPS = ["StoreAfterExplanation", "SeenCountsReturns", "CommitIsLinear"]
BASE = dict(Mode='"sage"', D=2, NInner=2, Kind='"es"', Alpha="A_1_2", StoreKind='"interval"', Cap=2,
            Strategy='"joint"', NOver=0, ModelKind='"scalar"', CommitEarly="FALSE", MaxCalls=3, MaxFaults=1, AllowNoUpd="FALSE")
CONFIGS = {
    # quick
    "sage_a": {},
    "pfi_a": dict(Mode='"pfi"'),
    "sage_neg": dict(CommitEarly="TRUE"),
    "pfi_neg": dict(Mode='"pfi"', CommitEarly="TRUE"),
    # thorough
    "sage_b": dict(Kind='"welford"', Strategy='"product"', StoreKind='"geometric"', ModelKind='"multi"', NInner=1,
                   AllowNoUpd="TRUE"),
    "sage_c": dict(D=3, NInner=1, Alpha="A_1_3"),
    "sage_d": dict(Kind='"welford"', StoreKind='"batch"', ModelKind='"multi"', MaxCalls=4, NInner=1, MaxFaults=2),
    "sage_e": dict(Alpha="A_1_3", StoreKind='"uniform"', Cap=1, NInner=2),
    "pfi_b": dict(Mode='"pfi"', Kind='"welford"', Strategy='"product"', StoreKind='"geometric"', ModelKind='"multi"',
                  AllowNoUpd="TRUE"),
    "pfi_c": dict(Mode='"pfi"', D=3, NInner=1, Alpha="A_1_3"),
    "pfi_d": dict(Mode='"pfi"', Kind='"welford"', StoreKind='"batch"', MaxCalls=4, NInner=1, MaxFaults=2),
    # per-call n_inner_samples override, DefaultImputer
    "sage_o": dict(NInner=1, NOver=2),
    "pfi_o": dict(Mode='"pfi"', NInner=2, NOver=1),
    "sage_def": dict(Strategy='"default"', NInner=2, NOver=1),
    "pfi_def": dict(Mode='"pfi"', Strategy='"default"', NInner=2),
}
LOGS = {
    # fault-free behaviours (C01-C03, C15) and behaviours with faults (C17)
    "sage_q": dict(NInner=1, MaxFaults=0),
    "pfi_q": dict(Mode='"pfi"', NInner=1, MaxFaults=0),
    "sage_fq": dict(NInner=1, MaxFaults=1),
    "pfi_fq": dict(Mode='"pfi"', NInner=1, MaxFaults=1),
    "sage_a": dict(MaxFaults=0),
    "sage_fa": dict(MaxFaults=1),
    "pfi_a": dict(Mode='"pfi"', MaxFaults=0),
    "pfi_fa": dict(Mode='"pfi"', MaxFaults=1),
    "sage_prod": dict(Kind='"welford"', Strategy='"product"', StoreKind='"geometric"', ModelKind='"multi"', NInner=1,
                      MaxFaults=0, AllowNoUpd="TRUE"),
    "sage_fprod": dict(Kind='"welford"', Strategy='"product"', StoreKind='"geometric"', ModelKind='"multi"', NInner=1,
                       MaxFaults=1),
    "pfi_prod": dict(Mode='"pfi"', Kind='"welford"', Strategy='"product"', StoreKind='"geometric"', ModelKind='"multi"',
                     NInner=1, MaxFaults=0, AllowNoUpd="TRUE"),
    "sage_d3": dict(D=3, NInner=1, Alpha="A_1_3", MaxFaults=0),
    "sage_ff": dict(NInner=1, MaxFaults=2, MaxCalls=3),
    "sage_o": dict(NInner=1, NOver=2, MaxFaults=0),
    "pfi_o": dict(Mode='"pfi"', NInner=2, NOver=1, MaxFaults=0),
    "sage_def": dict(Strategy='"default"', NInner=2, MaxFaults=0),
    "sage_fdef": dict(Strategy='"default"', NInner=1, MaxFaults=1),
}


def write(prefix, name, over, spec, invs, props):
    d = dict(BASE)
    d.update(over)
    lines = ["SPECIFICATION " + spec, "CONSTANTS"]
    lines += [" %s %s %s" % (k, "<-" if k == "Alpha" else "=", v) for k, v in d.items()]
    lines += ["INVARIANT " + i for i in invs] + ["PROPERTY " + p for p in props] + ["CHECK_DEADLOCK FALSE"]
    with open(os.path.join(HERE, "%s_%s.cfg" % (prefix, name)), "w") as f:
        f.write("\n".join(lines) + "\n")
    return d


def params(kind, name):
    d = dict(BASE)
    d.update((CONFIGS if kind == "mc" else LOGS)[name])
    alpha = {"A_1_2": (1, 2), "A_1_3": (1, 3), "A_1_1": (1, 1), "A_2_5": (2, 5)}[d["Alpha"]]
    out = {k: (v.strip('"') if isinstance(v, str) else v) for k, v in d.items()}
    out["Alpha"] = alpha
    for k in ("CommitEarly", "AllowNoUpd"):
        out[k] = out[k] == "TRUE"
    return out


AINV = ["AEfficiency", "ALockStep", "AVarNonNegative", "AKeys", "AStoreBound", "AMargPredNormalised"]
# the atomic specification on its own: deeper call sequences than the micro-step specification allows
ABS = {
    "sage_a": dict(MaxCalls=4),
    "pfi_a": dict(Mode='"pfi"', MaxCalls=4),
    "sage_w": dict(Kind='"welford"', StoreKind='"geometric"', ModelKind='"multi"', NInner=1, MaxCalls=3, AllowNoUpd="TRUE"),
    "sage_p": dict(Strategy='"product"', NInner=1, MaxCalls=4, StoreKind='"uniform"'),
    "sage_d3": dict(D=3, NInner=1, MaxCalls=3),
    "sage_def": dict(Strategy='"default"', NInner=2, NOver=1, MaxCalls=4),
    "pfi_w": dict(Mode='"pfi"', Kind='"welford"', Strategy='"product"', StoreKind='"batch"', NInner=1, MaxCalls=4),
    "sage_q": dict(NInner=1, MaxCalls=4),
}
# refinement micro-step => atomic, per micro-step configuration (neg: the pre-repair commit order must NOT refine)
REFINE = ["sage_a", "pfi_a", "sage_neg", "pfi_neg", "sage_b", "sage_c", "sage_d", "sage_e", "pfi_b", "pfi_c", "pfi_d",
          "sage_o", "pfi_o", "sage_def", "pfi_def"]


def write_abs(name, over):
    d = dict(BASE)
    d.update(over)
    for k in ("CommitEarly", "MaxFaults"):
        d.pop(k)
    lines = ["SPECIFICATION BSpec", "CONSTANTS"]
    lines += [" %s %s %s" % (k, "<-" if k == "Alpha" else "=", v) for k, v in d.items()]
    lines += ["INVARIANT " + i for i in AINV] + ["PROPERTY AMonotone", "CHECK_DEADLOCK FALSE"]
    with open(os.path.join(HERE, "MC_AbsExplainer_%s.cfg" % name), "w") as f:
        f.write("\n".join(lines) + "\n")


def write_refine(name, exists_form=False):
    d = dict(BASE)
    d.update(CONFIGS[name])
    lines = ["SPECIFICATION RSpec", "CONSTANTS"]
    lines += [" %s %s %s" % (k, "<-" if k == "Alpha" else "=", v) for k, v in d.items()]
    lines += ["PROPERTY RefinesInit", "PROPERTY " + ("AbsSpec" if exists_form else "Refines"), "CHECK_DEADLOCK FALSE"]
    with open(os.path.join(HERE, "Refine_IncExplainer_%s%s.cfg" % (name, "_ex" if exists_form else "")), "w") as f:
        f.write("\n".join(lines) + "\n")


if __name__ == "__main__":
    for n, o in ABS.items():
        write_abs(n, o)
    for n in REFINE:
        write_refine(n)
    write_refine("sage_a", True)
    write_refine("pfi_a", True)
    for n, o in CONFIGS.items():
        write("MC_IncExplainer", n, o, "Spec", INV, PROPS)
    for n, o in LOGS.items():
        write("MC_IncExplainerLog", n, o, "LSpec", ["Emit"], [])
