---------------------------- MODULE MC_IncExplainer ----------------------------
(* Model-checking wrapper: constants that a .cfg file cannot express. *)
EXTENDS IncExplainer
A_1_2 == <<1, 2>>
A_1_3 == <<1, 3>>
A_1_1 == <<1, 1>>
A_2_5 == <<2, 5>>
=================================================================================
