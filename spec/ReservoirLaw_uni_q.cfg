SPECIFICATION Spec
CONSTANTS K = 2
 MaxN = 7
 Law = "uniform"
INVARIANT Total
INVARIANT KernelIsStorages
INVARIANT GeometricLaw
INVARIANT AlwaysStoredWhenPOne
INVARIANT UniformSubsets
INVARIANT UniformInclusion
CHECK_DEADLOCK FALSE
