SPECIFICATION Spec
CONSTANTS MaxLen = 6
INVARIANT Emit
CHECK_DEADLOCK FALSE
