---------------------------- MODULE IntervalSage ----------------------------
(* C05 (schedule part), C15, C17: IntervalSage.explain_one as a state machine, one action per *)
(* public call (the batch explanation itself is computed by the step functions of BatchSteps  *)
(* from the window and the enumerated random choices).                                        *)
(*   storage update (if update_storage) -> seen += 1 -> return old values unless scheduled or  *)
(*   forced -> explain_many over the window (the last storage_length updated observations)     *)
EXTENDS Integers, Sequences, FiniteSets, FiniteSetsExt, SequencesExt, FieldQ, TLC, Json
CONSTANTS D, NInner, IntervalLen, StorageLen, MaxCalls, WithFaults
E == INSTANCE BatchEnv
St == INSTANCE Storages
B == INSTANCE BatchSteps WITH FAdd <- QAdd, FSub <- QSub, FMul <- QMul, FDiv <- QDiv, FInt <- QInt
Feat == E!Feat
Items == E!Items
Perms == E!Perms
ExplainMany(w, ps, drs) == E!ExplainMany(w, ps, drs)
ExplainedLossOf(w) == E!ExplainedLossOf(w)

VARIABLES seen, window, values, modelCalls, hist, updHist, last
vars == <<seen, window, values, modelCalls, hist, updHist, last>>
Init == /\ seen = 0 /\ window = St!Empty /\ values = [f \in Feat |-> QZero] /\ modelCalls = 0
        /\ hist = <<>> /\ updHist = <<>> /\ last = [kind |-> "none"]

Scheduled(force, s) == force \/ s % IntervalLen = 0
\* one public call; the random choices (orders, rows) of a recomputation are enumerated
Call(it, force, upd) ==
   /\ Len(hist) < MaxCalls
   /\ LET w2 == IF upd THEN St!Update("interval", StorageLen, TRUE, window, it, 0) ELSE window
          s2 == seen + 1
          m == Len(w2.sx)
      IN /\ window' = w2 /\ seen' = s2
         /\ hist' = Append(hist, [force |-> force, upd |-> upd])
         /\ updHist' = IF upd THEN Append(updHist, it) ELSE updHist
         /\ IF ~Scheduled(force, s2)
            THEN values' = values /\ modelCalls' = modelCalls /\ last' = [kind |-> "kept"]
            ELSE IF m = 0
                 THEN \* explaining an empty window raises (division by zero in the mean prediction)
                      values' = values /\ modelCalls' = modelCalls /\ last' = [kind |-> "empty"]
                 ELSE \* representative random choices: every order, one background row per explained observation
                      \* (the full product of row draws is enumerated for single calls in MC_BatchSage)
                      \E ps \in [1..m -> Perms], dr \in [1..m -> 1..m] :
                         LET drs == [i \in 1..m |-> [j \in 1..D |-> [k \in 1..NInner |-> dr[i]]]] IN
                         /\ values' = ExplainMany(w2, ps, drs)
                         /\ modelCalls' = modelCalls + m + m * D * NInner
                         /\ last' = [kind |-> "explained", ps |-> ps, drs |-> drs]
Next == \E it \in Items, force \in BOOLEAN, upd \in BOOLEAN : Call(it, force, upd)
Spec == Init /\ [][Next]_vars

(* ---- properties ---- *)
SeenCountsCalls == seen = Len(hist)
WindowIsLastK == LET k == IF Len(updHist) < StorageLen THEN Len(updHist) ELSE StorageLen
                 IN /\ Len(window.sx) = k /\ Len(window.sy) = k
                    /\ \A i \in 1..k : <<window.sx[i], window.sy[i]>> = updHist[Len(updHist) - k + i]
RecomputeIffScheduled == [][values' # values => Scheduled(hist'[Len(hist')].force, seen')]_vars
NoModelCallOffSchedule == [][modelCalls' # modelCalls => Scheduled(hist'[Len(hist')].force, seen')]_vars
ScheduledRecomputes == [][(Scheduled(hist'[Len(hist')].force, seen') /\ Len(window'.sx) > 0) => modelCalls' > modelCalls]_vars
\* efficiency of every recomputed explanation: values sum to the explained loss of the window
BatchEfficiency == last.kind = "explained" => B!SumValues(values) = ExplainedLossOf(window)
Emit == Len(hist) = MaxCalls => PrintT(ToJson([hist |-> hist]))
==============================================================================
