---------------------------- MODULE BatchEnv ----------------------------
(* Environment tables and the explain_many step function shared by IntervalSage.tla,      *)
(* MC_BatchSage.tla and Expectation.tla (exact rationals).                                 *)
EXTENDS Integers, Sequences, FiniteSets, FiniteSetsExt, SequencesExt, FieldQ, TLC
CONSTANTS D, NInner
B == INSTANCE BatchSteps WITH FAdd <- QAdd, FSub <- QSub, FMul <- QMul, FDiv <- QDiv, FInt <- QInt
T == INSTANCE Trackers WITH FAdd <- QAdd, FSub <- QSub, FMul <- QMul, FDiv <- QDiv, FInt <- QInt
S == INSTANCE ExplainerSteps WITH FAdd <- QAdd, FSub <- QSub, FMul <- QMul, FDiv <- QDiv, FInt <- QInt
St == INSTANCE Storages
Feat == 1..D
Items == { <<[i \in Feat |-> IF i = 1 THEN 0 ELSE 1], 1>>, <<[i \in Feat |-> IF i = 1 THEN 2 ELSE 0], 2>> }
SumI(f) == FoldSet(LAMBDA i, acc : f[i] + acc, 0, DOMAIN f)
Model(x) == [k \in {0} |-> QInt(SumI([i \in Feat |-> ((i % 2) + 1) * x[i]]) - 1 + x[1] * x[D])]
Loss(y, p) == QSub(QSq(QSub(QInt(y), p[0])), QInt(y))
Perms == { q \in [1..D -> Feat] : \A a, b \in 1..D : a # b => q[a] # q[b] }

Rows(w) == w.sx
\* chain of one observation: order p, joint row draws dr[j][k] \in 1..Len(rows)
ChainLosses(x, y, p, dr, rows, meanpred) ==
   [j \in 1..(D + 1) |->
      IF j = 1 THEN Loss(y, meanpred)
      ELSE LET notS == S!NotInS(Feat, p, j - 1)
               outs == [k \in 1..NInner |-> Model([f \in Feat |-> IF f \in notS THEN rows[dr[j - 1][k]][f] ELSE x[f]])]
           IN Loss(y, T!MeanOutput(outs))]
ExplainMany(w, ps, drs) ==
   LET rows == Rows(w)  m == Len(rows)
       meanpred == T!MeanOutput([i \in 1..m |-> Model(rows[i])])
       L(i) == ChainLosses(rows[i], w.sy[i], ps[i], drs[i], rows, meanpred)
       contribs == [i \in 1..m |-> S!SageContrib(ps[i], L(i))]
   IN B!BatchValues(Feat, contribs)
ExplainedLossOf(w) ==
   LET rows == Rows(w)  m == Len(rows)
       meanpred == T!MeanOutput([i \in 1..m |-> Model(rows[i])])
   IN B!ExplainedLoss([i \in 1..m |-> Loss(w.sy[i], meanpred)], [i \in 1..m |-> Loss(w.sy[i], Model(rows[i]))])

=========================================================================
