SPECIFICATION Spec
CONSTANTS K = 2
 MaxN = 5
 Law = "uniform"
INVARIANT Emit
CHECK_DEADLOCK FALSE
