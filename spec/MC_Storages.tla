---------------------------- MODULE MC_Storages ----------------------------
(* C07: every storage class under every update sequence and every reservoir outcome.     *)
(* Arrival t is the item <<t, 100 + t>> (x and y carry different encodings of the arrival *)
(* id, so a target stored next to the wrong instance is visible).                         *)
EXTENDS Integers, Sequences, FiniteSets, TLC, Json
St == INSTANCE Storages
CONSTANTS MaxN, MaxCap
VARIABLES kind, cap, targets, st, n, choices
vars == <<kind, cap, targets, st, n, choices>>
Item(t) == <<t, 100 + t>>
Init == /\ kind \in St!Kinds /\ cap \in 1..MaxCap /\ targets \in BOOLEAN
        /\ (kind = "sequence" => cap = 1) /\ (kind = "batch" => cap = MaxCap)
        /\ st = St!Empty /\ n = 0 /\ choices = <<>>
Next == /\ n < MaxN
        /\ \E c \in St!Choices(kind, cap, st) :
              /\ st' = St!Update(kind, cap, targets, st, Item(n + 1), c)
              /\ choices' = Append(choices, c)
        /\ n' = n + 1 /\ UNCHANGED <<kind, cap, targets>>
Spec == Init /\ [][Next]_vars

SX == st.sx
SY == st.sy
Capacity == IF kind = "batch" THEN n ELSE cap
\* stored observations are observed ones, each at most once
SubMultiset == /\ \A i \in 1..Len(SX) : SX[i] \in 1..n
               /\ \A i, j \in 1..Len(SX) : i # j => SX[i] # SX[j]
Count == Len(SX) = (IF n < Capacity THEN n ELSE Capacity)
Aligned == IF targets THEN /\ Len(SY) = Len(SX) /\ \A i \in 1..Len(SX) : SY[i] = 100 + SX[i]
           ELSE SY = <<>>
BatchIsStream == kind = "batch" => SX = [i \in 1..n |-> i]
IntervalIsSuffix == kind \in {"interval", "sequence"} =>
                       SX = [i \in 1..Len(SX) |-> n - Len(SX) + i]
SequenceIsLast == (kind = "sequence" /\ n > 0) => SX = <<n>>
\* a reservoir only ever changes by admitting the newest arrival
NewestOrUnchanged == [][\/ st'.sx = st.sx
                        \/ \E i \in 1..Len(st'.sx) : st'.sx[i] = n + 1]_vars
Emit == PrintT(ToJson([kind |-> kind, cap |-> cap, targets |-> targets, n |-> n, choices |-> choices,
                       sx |-> SX, sy |-> SY]))
=============================================================================
