---------------------------- MODULE Refine_CtlSkeleton ----------------------------
(* IncExplainer.tla (intended commit order) implements the control skeleton CtlSkeleton.tla, for which FaultAtomic,   *)
(* StoreOnce and NeverOwnBackground are proved with TLAPS for any number of features, inner samples and calls.        *)
(* Mapping: program counter and loop counters as they are; the estimates are the tuple est; before the first call    *)
(* the snapshot is the (initial) estimates; first = nothing seen yet; nm / nl = the per-call numbers of model and     *)
(* loss evaluations of one imputation.  With CommitEarly = TRUE the refinement fails (negative control).              *)
EXTENDS MC_IncExplainer
Sk == INSTANCE CtlSkeleton WITH Sage <- (Mode = "sage"),
                                snap <- IF outcome = "none" THEN est ELSE snap,
                                first <- (seen = 0),
                                nm <- IF Strategy = "default" THEN 1 ELSE ncur,
                                nl <- ncur
ImplementsSkeleton == Sk!Spec
====================================================================================
