SPECIFICATION Spec
CONSTANTS
 K = 4
 WrapBug = FALSE
CONSTRAINT Bound
INVARIANT StepIsTrackers
INVARIANT IndInv
INVARIANT WindowIsLastK
CHECK_DEADLOCK FALSE
