SPECIFICATION Spec
CONSTANTS
 K = 4
 WrapBug = FALSE
CONSTRAINT Bound
INVARIANT StepIsTrackers
INVARIANT IndInv
INVARIANT WindowIsLastK
INVARIANT ProofInvariant
PROPERTY ProofIsAboutThisStep
CHECK_DEADLOCK FALSE
