---------------------------- MODULE Trace_Storages ----------------------------
(* Direction B for C07: every update recorded from the real storage classes must be one of *)
(* the specification's successors of the logged content (the reservoir outcome - reject /   *)
(* replace slot s - is existentially quantified and inferred by TLC).                       *)
EXTENDS TraceBase
St == INSTANCE Storages
VARIABLES tid, l
vars == <<tid, l>>
Init == tid \in 1..Len(Traces) /\ l = 1
Tr == Traces[tid]
Ck(name, ok) == Check(name, tid, l, ok)
Store(j) == [sx |-> j.sx, sy |-> j.sy]
\* the target that arrived with item a: "y<a>" (logged as 100 + a), or None when the update omitted it / passed None (-2)
NoneSet == { Tr.none[i] : i \in 1..Len(Tr.none) }
Code(a) == IF a \in NoneSet THEN -2 ELSE 100 + a
Step(ev) ==
   LET before == Store(ev.before)  after == Store(ev.after)
       it == <<ev.t, Code(ev.t)>>
       cap == IF Tr.kind = "batch" THEN ev.t ELSE Tr.cap
   IN /\ Ck("storage.kind_law", after \in St!Successors(Tr.kind, Tr.cap, Tr.targets, before, it))
      /\ Ck("storage.submultiset", /\ \A i \in 1..Len(after.sx) : after.sx[i] \in 1..ev.t
                                   /\ \A i, j \in 1..Len(after.sx) : i # j => after.sx[i] # after.sx[j])
      /\ Ck("storage.count", Len(after.sx) = (IF ev.t < cap THEN ev.t ELSE cap) /\ ev.len = Len(after.sx))
      /\ Ck("storage.aligned", IF Tr.targets THEN /\ Len(after.sy) = Len(after.sx)
                                                   /\ \A i \in 1..Len(after.sx) : after.sy[i] = Code(after.sx[i])
                               ELSE Len(after.sy) = 0)
\* C18: a replaced slot is explained by a uniform draw over the capacity from the global generators
SlotExplained(ev) ==
   LET before == ev.before.sx  after == ev.after.sx IN
   (Len(before) = Len(after) /\ before # after /\ Tr.kind \in {"geometric", "uniform"}) =>
      \E s \in 1..Len(after) : /\ after[s] # before[s]
                               /\ \E q \in 1..Len(ev.draws) : ev.draws[q][1] = "uniform" /\ ev.draws[q][2] = Tr.cap
                                                                /\ ev.draws[q][3] = s - 1
Next == /\ l <= Len(Tr.ev) /\ Step(Tr.ev[l]) /\ Ck("draw.slot_explained", SlotExplained(Tr.ev[l])) /\ l' = l + 1 /\ UNCHANGED tid
Spec == Init /\ [][Next]_vars
================================================================================
