SPECIFICATION Spec
CONSTANTS MaxN = 6
 MaxCap = 3
INVARIANT Emit
CHECK_DEADLOCK FALSE
