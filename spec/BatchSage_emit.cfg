SPECIFICATION Spec
CONSTANTS D = 2
 NInner = 1
 MaxRows = 2
 CommitInPlace = FALSE
 MaxFaults = 1
 MaxCalls = 1
INVARIANT Emit
CHECK_DEADLOCK FALSE
