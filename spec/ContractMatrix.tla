---------------------------- MODULE ContractMatrix ----------------------------
(* C15: the constructor / call-contract matrix of the four explainers, as a case          *)
(* enumeration.  Every TLC state is one configuration; the harness turns each state into   *)
(* one implementation test (construct from the documented arguments, run a short stream).  *)
(* The operators below state what the documented contract promises for a configuration.    *)
EXTENDS Integers, Sequences, FiniteSets, TLC, Json
Classes == {"IncrementalSage", "IncrementalPFI", "BatchSage", "IntervalSage"}
Incremental == {"IncrementalSage", "IncrementalPFI"}
NameSchemes == {"str", "int", "float", "mixed", "mixed2"}
VARIABLE cfg
Configs == [cls : Classes, names : NameSchemes, d : 1..3,
            setting : {"default", "static", "dynamic"},      \* dynamic_setting omitted / False / True
            alpha : {"omitted", "half", "one"},              \* smoothing_alpha omitted / 0.5 / 1.0
            ninner : {1, 2},                                 \* n_inner_samples omitted (1) / 2
            parts : {"default", "given"}]                    \* storage and imputer omitted / supplied
Valid(c) == c.cls \notin Incremental => (c.setting = "default" /\ c.alpha = "omitted")
Init == cfg \in { c \in Configs : Valid(c) }
Next == UNCHANGED cfg /\ FALSE
Spec == Init /\ [][Next]_cfg

(* ---- what the contract promises ---- *)
\* every explainer can be built from the documented required arguments alone (defaults for the rest)
Constructible(c) == TRUE
\* positional loss(y_true, y_pred_dict) is accepted by every explainer
AcceptsPositionalLoss(c) == TRUE
\* model evaluations of the k-th explain_one call (k >= 1) of a stream, default imputer;
\* a batch call over m rows counts m evaluations
ModelCalls(c, k) ==
   IF c.cls \in Incremental THEN (IF k = 1 THEN 0 ELSE 1 + c.d * c.ninner)
   ELSE IF c.cls = "BatchSage" THEN k + k * c.d * c.ninner          \* explains all k stored rows
   ELSE 0   \* IntervalSage with the default interval_length = 1000 never explains in a short stream
SeenAfter(c, k) == IF c.cls = "BatchSage" THEN k ELSE k
KeysAreNames(c) == TRUE
Emit == PrintT(ToJson([cfg |-> cfg,
                       constructible |-> Constructible(cfg),
                       calls |-> [k \in 1..4 |-> ModelCalls(cfg, k)]]))
================================================================================
