---------------------------- MODULE CtlSkeleton ----------------------------
(* The control skeleton of explain_one (IncExplainer.tla with all data abstracted away): program counter, loop    *)
(* counters and the moment at which the estimates change.  Proved with TLAPS for ANY number of features D, ANY      *)
(* number of inner samples (per call) and ANY number of calls: a call that raises leaves the estimates as they were when it  *)
(* began (C17), and the storage is updated at most once per call and only after the last callback of the            *)
(* explanation (C15).  Refine_CtlSkeleton.tla checks with TLC that IncExplainer.tla implements this skeleton.       *)
EXTENDS Integers, TLAPS
CONSTANTS D, Sage
ASSUME Params == D \in Nat /\ D >= 1 /\ Sage \in BOOLEAN
\* nm: model evaluations per imputation of the call in progress (the per-call n_inner_samples; 1 for a DefaultImputer),
\* nl: loss evaluations per feature (PFI: one per inner prediction) - both chosen freely when a call begins
VARIABLES pc, pos, smp, lk, est, snap, outcome, first, stored, upd, nm, nl
vars == <<pc, pos, smp, lk, est, snap, outcome, first, stored, upd, nm, nl>>
PCs == {"idle", "perm", "model", "lossmodel", "lossmarg", "impute", "draw", "imodel", "lossfeat", "store", "commit", "ret"}
CallbackSteps == {"model", "lossmodel", "lossmarg", "impute", "imodel", "lossfeat", "store"}
Init == /\ pc = "idle" /\ pos = 0 /\ smp = 0 /\ lk = 0 /\ snap = est /\ outcome = "none" /\ first = TRUE /\ stored = 0
        /\ upd = TRUE /\ nm \in Nat /\ nl \in Nat
Begin(u) == /\ pc = "idle" /\ nm' \in Nat /\ nl' \in Nat /\ snap' = est /\ outcome' = "running" /\ pos' = 0 /\ smp' = 0 /\ lk' = 0 /\ stored' = 0 /\ upd' = u
            /\ pc' = IF first THEN (IF u THEN "store" ELSE "ret") ELSE IF Sage THEN "perm" ELSE "model"
            /\ UNCHANGED <<est, first>>
Step(from, to) == pc = from /\ pc' = to /\ UNCHANGED <<est, snap, outcome, first, stored, upd, nm, nl>>
DrawPerm == Step("perm", "model") /\ UNCHANGED <<pos, smp, lk>>
CallModel == Step("model", "lossmodel") /\ UNCHANGED <<pos, smp, lk>>
CallLossModel == /\ pc = "lossmodel" /\ pc' = (IF Sage THEN "lossmarg" ELSE "impute") /\ pos' = (IF Sage THEN pos ELSE 1)
                 /\ UNCHANGED <<smp, lk, est, snap, outcome, first, stored, upd, nm, nl>>
CallLossMarg == Step("lossmarg", "impute") /\ pos' = 1 /\ UNCHANGED <<smp, lk>>
ImputeBegin == Step("impute", "draw") /\ smp' = 1 /\ UNCHANGED <<pos, lk>>
ImputeDraw == Step("draw", "imodel") /\ UNCHANGED <<pos, smp, lk>>
ImputeModel == /\ pc = "imodel"
               /\ IF smp < nm THEN smp' = smp + 1 /\ pc' = "draw" /\ lk' = lk ELSE smp' = smp /\ pc' = "lossfeat" /\ lk' = 1
               /\ UNCHANGED <<pos, est, snap, outcome, first, stored, upd, nm, nl>>
Advance == IF pos = D THEN pc' = (IF upd THEN "store" ELSE "commit") /\ pos' = pos ELSE pc' = "impute" /\ pos' = pos + 1
LossFeat == /\ pc = "lossfeat"
            /\ IF Sage THEN Advance /\ lk' = lk
               ELSE IF lk < nl THEN lk' = lk + 1 /\ UNCHANGED <<pc, pos>> ELSE lk' = lk /\ Advance
            /\ UNCHANGED <<smp, est, snap, outcome, first, stored, upd, nm, nl>>
StoreUpdate == /\ pc = "store" /\ stored' = stored + 1 /\ pc' = (IF first THEN "ret" ELSE "commit")
               /\ UNCHANGED <<pos, smp, lk, est, snap, outcome, first, upd, nm, nl>>
\* the only step that changes the estimates (est' is not constrained: any new value)
Commit == /\ pc = "commit" /\ pc' = "ret" /\ UNCHANGED <<pos, smp, lk, snap, outcome, first, stored, upd, nm, nl>>
Return == /\ pc = "ret" /\ pc' = "idle" /\ outcome' = "ok" /\ first' = FALSE
          /\ UNCHANGED <<pos, smp, lk, est, snap, stored, upd, nm, nl>>
\* a callback raises (the counter of seen samples - hence `first` - may or may not advance)
Fault == /\ pc \in CallbackSteps /\ pc' = "idle" /\ outcome' = "exc" /\ first' \in {first, FALSE}
         /\ UNCHANGED <<pos, smp, lk, est, snap, stored, upd, nm, nl>>
\* the imputer finds the storage empty
EmptyFault == /\ pc = "draw" /\ pc' = "idle" /\ outcome' = "exc" /\ first' \in {first, FALSE}
              /\ UNCHANGED <<pos, smp, lk, est, snap, stored, upd, nm, nl>>
Next == \/ \E u \in BOOLEAN : Begin(u)
        \/ DrawPerm \/ CallModel \/ CallLossModel \/ CallLossMarg \/ ImputeBegin \/ ImputeDraw \/ ImputeModel \/ LossFeat
        \/ StoreUpdate \/ Commit \/ Return \/ Fault \/ EmptyFault
Spec == Init /\ [][Next]_vars

PreCommit == {"perm", "model", "lossmodel", "lossmarg", "impute", "draw", "imodel", "lossfeat", "store", "commit"}
Inv == /\ pc \in PCs /\ stored \in Nat /\ upd \in BOOLEAN
       /\ (pc \in PreCommit) => est = snap                          \* nothing changes before the commit
       /\ (pc = "idle" /\ outcome \in {"exc", "none"}) => est = snap  \* ... and a call that raised never reached it
       /\ stored <= (IF upd THEN 1 ELSE 0)
       /\ (pc \in (PreCommit \ {"commit"})) => stored = 0            \* no callback of the explanation follows the storage update
       /\ (pc = "store") => upd
\* C17 / C15 as stated
FaultAtomic == outcome = "exc" => (pc = "idle" => est = snap)
StoreOnce == stored <= (IF upd THEN 1 ELSE 0)
NeverOwnBackground == pc \in {"draw", "imodel", "lossfeat", "impute"} => stored = 0

LEMMA InitInv == Init => Inv
  BY DEF Init, Inv, PCs, PreCommit

LEMMA StepInv == Inv /\ [Next]_vars => Inv'
<1> SUFFICES ASSUME Inv, [Next]_vars PROVE Inv'
  OBVIOUS
<1> USE Params DEF Inv, PCs, PreCommit, CallbackSteps, Step, Advance
<1>1. CASE UNCHANGED vars BY <1>1 DEF vars
<1>2. ASSUME NEW u \in BOOLEAN, Begin(u) PROVE Inv' BY <1>2 DEF Begin
<1>3. CASE DrawPerm BY <1>3 DEF DrawPerm
<1>4. CASE CallModel BY <1>4 DEF CallModel
<1>5. CASE CallLossModel BY <1>5 DEF CallLossModel
<1>6. CASE CallLossMarg BY <1>6 DEF CallLossMarg
<1>7. CASE ImputeBegin BY <1>7 DEF ImputeBegin
<1>8. CASE ImputeDraw BY <1>8 DEF ImputeDraw
<1>9. CASE ImputeModel BY <1>9 DEF ImputeModel
<1>10. CASE LossFeat BY <1>10 DEF LossFeat
<1>11. CASE StoreUpdate BY <1>11 DEF StoreUpdate
<1>12. CASE Commit BY <1>12 DEF Commit
<1>13. CASE Return BY <1>13 DEF Return
<1>14. CASE Fault BY <1>14 DEF Fault
<1>15. CASE EmptyFault BY <1>15 DEF EmptyFault
<1> QED BY <1>1, <1>2, <1>3, <1>4, <1>5, <1>6, <1>7, <1>8, <1>9, <1>10, <1>11, <1>12, <1>13, <1>14, <1>15 DEF Next

LEMMA InvImplies == Inv => FaultAtomic /\ StoreOnce /\ NeverOwnBackground
  BY DEF Inv, FaultAtomic, StoreOnce, NeverOwnBackground, PreCommit

THEOREM Safe == Spec => [](FaultAtomic /\ StoreOnce /\ NeverOwnBackground)
<1>1. Spec => []Inv
  BY InitInv, StepInv, PTL DEF Spec
<1> QED BY <1>1, InvImplies, PTL
=============================================================================
