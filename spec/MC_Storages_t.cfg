SPECIFICATION Spec
CONSTANTS MaxN = 8
 MaxCap = 3
INVARIANT SubMultiset
INVARIANT Count
INVARIANT Aligned
INVARIANT BatchIsStream
INVARIANT IntervalIsSuffix
INVARIANT SequenceIsLast
PROPERTY NewestOrUnchanged
CHECK_DEADLOCK FALSE
