---------------------------- MODULE Trace_SlidingWindow ----------------------------
(* Direction B for C11: the specification's ring buffer is driven by the logged inputs and *)
(* the statistics the implementation reported after every update are compared with those   *)
(* of the specification's window (integers: sum, count, count*sumsq - sum^2).              *)
EXTENDS TraceBase, FiniteSetsExt, SequencesExt
IAdd(a, b) == a + b
ISub(a, b) == a - b
IMul(a, b) == a * b
IDiv(a, b) == a \div b
IInt(i) == i
T == INSTANCE Trackers WITH FAdd <- IAdd, FSub <- ISub, FMul <- IMul, FDiv <- IDiv, FInt <- IInt
VARIABLES tid, l, s
vars == <<tid, l, s>>
Init == tid \in 1..Len(Traces) /\ l = 1 /\ s = T!SWInit(Traces[tid].k)
Tr == Traces[tid]
Ck(name, ok) == Check(name, tid, l, ok)
Sum(q) == FoldSeq(LAMBDA x, acc : x + acc, 0, q)
SumSq(q) == FoldSeq(LAMBDA x, acc : x * x + acc, 0, q)
Next == /\ l <= Len(Tr.ev)
        /\ LET ev == Tr.ev[l]
               s2 == T!SWUpd(s, ev.v)
               w == T!SWContent(s2)
           IN /\ s' = s2
              /\ Ck("sw.count", ev.cnt = Len(w))
              /\ Ck("sw.mean", ev.sum = Sum(w))
              /\ Ck("sw.var", ev.varnum = Len(w) * SumSq(w) - Sum(w) * Sum(w))
              /\ Ck("sw.window", ev.haswin => SortSeq(ev.win, <) = SortSeq(w, <))
        /\ l' = l + 1 /\ UNCHANGED tid
Spec == Init /\ [][Next]_vars
=====================================================================================
