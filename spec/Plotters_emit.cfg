SPECIFICATION Spec
CONSTANTS
 Facets = {"a", "b"}
 Feats = {"f", "g"}
 Vals = {1, 2}
 MaxCalls = 3
INVARIANT LockStep
INVARIANT SeenCounts
INVARIANT StepsIncrease
INVARIANT Emit
CHECK_DEADLOCK FALSE
