---------------------------- MODULE MC_MVInd ----------------------------
EXTENDS MVInd, Apalache
CInitOK == Keys = {"a", "b", "c"} /\ DropMissing = FALSE
CInitBug == Keys = {"a", "b", "c"} /\ DropMissing = TRUE
IndInit == /\ n \in Nat /\ tracked \in SUBSET Keys
           /\ fed \in [Keys -> Nat] /\ first \in [Keys -> Nat]
           /\ IndInv
=========================================================================
