SPECIFICATION Spec
CONSTANTS Keys = {"a","b","c"}
 MaxCalls = 3
INVARIANT Emit
CHECK_DEADLOCK FALSE
