SPECIFICATION Spec
CONSTANTS D = 2
 NInner = 2
 MaxRows = 2
INVARIANT BatchEfficiency
INVARIANT ValuesForAllFeatures
CHECK_DEADLOCK FALSE
