---------------------------- MODULE Trace_TreeStore ----------------------------
(* Direction B for C19: per update and feature, the logged leaf set of river's tree (the   *)
(* environment step is whatever happened between two logged leaf sets), the routed leaf and  *)
(* the reservoirs before / after, as arrival ids.  TreeImputer calls carry the model inputs  *)
(* as value tokens.                                                                          *)
EXTENDS TraceBase, FiniteSetsExt, SequencesExt
VARIABLES tid, l
vars == <<tid, l>>
Init == tid \in 1..Len(Traces) /\ l = 1
Tr == Traces[tid]
Ck(name, ok) == Check(name, tid, l, ok)
TS == INSTANCE TreeSteps
SetOf(s) == { s[i] : i \in 1..Len(s) }
Res(js) == PairsToFun(js)
UpdateEvent(ev) ==
   LET L2 == SetOf(ev.leaves)  pre == Res(ev.pre)  post == Res(ev.post)  t == ev.t  r == ev.routed
   IN /\ Ck("tree.len", ev.len = t)
      /\ Ck("tree.leaf_ids_complete", ev.nleaves_own = Cardinality(L2))
      /\ Ck("tree.routed_is_leaf", r \in L2)
      \* the leaf the storage routes the observation to is the leaf the tree itself sends it to (independent traversal)
      /\ Ck("tree.routed_as_the_tree_routes", ev.routed_own = 0 \/ ev.routed_own = r)
      /\ Ck("tree.keys_are_leaves", DOMAIN post \subseteq L2)
      /\ Ck("tree.bounded", \A k \in DOMAIN post : Len(post[k]) <= Tr.cap /\ Len(post[k]) >= 1)
      /\ Ck("tree.contents_observed", \A k \in DOMAIN post : \A i \in 1..Len(post[k]) : post[k][i] \in 1..t)
      /\ Ck("tree.newest_in_routed_leaf", r \in DOMAIN post /\ t \in SetOf(post[r]))
      /\ Ck("tree.step", \E c \in 1..Tr.cap : post = TS!Step(pre, L2, r, t, c, Tr.cap))
      /\ Ck("tree.points_complete", ev.complete)
ImputeEvent(ev) ==
   /\ Ck("timpute.count", ev.count = ev.n /\ Len(ev.inputs) = ev.n)
   /\ Ck("timpute.no_mutation", ev.unmodified)
   /\ \A i \in 1..Len(ev.inputs) :
        /\ Ck("timpute.only_subset_changed", \A f \in 1..Len(ev.x) : (f \notin SetOf(ev.subset)) => ev.inputs[i][f] = ev.x[f])
        /\ \A q \in 1..Len(ev.subset) :
              LET f == ev.subset[q]  al == ev.allowed[q] IN
              Ck("timpute.value_from_routed_leaf_reservoir", al.any \/ ev.inputs[i][f] \in SetOf(al.tokens))
Next == /\ l <= Len(Tr.ev)
        /\ IF Tr.ev[l].k = "update" THEN UpdateEvent(Tr.ev[l]) ELSE ImputeEvent(Tr.ev[l])
        /\ l' = l + 1 /\ UNCHANGED tid
Spec == Init /\ [][Next]_vars
=================================================================================
