---------------------------- MODULE ReservoirLaw ----------------------------
(* C08 / C09: the law of the reservoirs, as a distribution transformer.  The state is the  *)
(* whole probability mass function `dist` over reservoir contents (sequences of arrival     *)
(* ids) after n arrivals; Arrive pushes it through the one-step kernel of Storages.tla      *)
(* with the outcome probabilities of the design, in exact rational arithmetic.              *)
(*   Law = "geometric": accept with constant probability p, uniform slot                    *)
(*   Law = "uniform":   accept arrival n with probability k/n, uniform slot (what           *)
(*                      Algorithm L must be equal to in distribution)                       *)
EXTENDS Integers, Sequences, FiniteSets, FiniteSetsExt, SequencesExt, FieldQ, TLC, Json
St == INSTANCE Storages
CONSTANTS K, MaxN, Law
PSet == IF Law = "geometric" THEN {<<1, 1>>, <<1, 2>>, <<1, 3>>, <<0, 1>>, <<2, 3>>, <<1, K>>} ELSE {<<0, 1>>}
VARIABLES n, dist, p
vars == <<n, dist, p>>
Init == n = 0 /\ dist = (<<>> :> QOne) /\ p \in PSet
AcceptProb(m) == IF Law = "geometric" THEN p ELSE <<K, m>>     \* m = index of the arriving item (> K)
\* weighted outcomes of one update of reservoir content `res` with arrival `item`
Outcomes(res, item) ==
   IF Len(res) < K THEN { <<Append(res, item), QOne>> }
   ELSE LET a == IF Law = "geometric" THEN p ELSE QDiv(QInt(K), QInt(item))
        IN { <<res, QSub(QOne, a)>> } \cup { <<[res EXCEPT ![s] = item], QDiv(a, QInt(K))>> : s \in 1..K }
SumW(S) == FoldSet(LAMBDA x, acc : QAdd(x[3], acc), QZero, S)
Push(d, item) ==
   LET pairs == UNION { { <<r, o[1], QMul(d[r], o[2])>> : o \in Outcomes(r, item) } : r \in DOMAIN d }
       targets == { t[2] : t \in pairs }
   IN [ t \in targets |-> SumW({ x \in pairs : x[2] = t }) ]
Arrive == n < MaxN /\ n' = n + 1 /\ dist' = Push(dist, n + 1) /\ UNCHANGED p
Spec == Init /\ [][Arrive]_vars

Mass(S) == SumW({ <<r, r, dist[r]>> : r \in S })
Support == { r \in DOMAIN dist : dist[r] # QZero }
InRes(r, t) == \E i \in 1..Len(r) : r[i] = t
Incl(t) == Mass({ r \in DOMAIN dist : InRes(r, t) })
AsSet(r) == { r[i] : i \in 1..Len(r) }
Total == Mass(DOMAIN dist) = QOne
\* the one-step kernel used here is the kernel of Storages.tla (same successor contents)
KernelIsStorages == \A r \in DOMAIN dist :
     { o[1] : o \in Outcomes(r, n + 1) } =
        { s.sx : s \in St!Successors(IF Law = "geometric" THEN "geometric" ELSE "uniform", K, FALSE,
                                     [sx |-> r, sy |-> <<>>], <<n + 1, 0>>) }
\* C09: inclusion law of the geometric reservoir
GeometricLaw == Law = "geometric" => \A t \in 1..n :
      Incl(t) = IF n <= K THEN QOne
                ELSE IF t <= K THEN QPow(QSub(QOne, QDiv(p, QInt(K))), n - K)
                ELSE QMul(p, QPow(QSub(QOne, QDiv(p, QInt(K))), n - t))
AlwaysStoredWhenPOne == (Law = "geometric" /\ p = QOne /\ n >= 1) => Incl(n) = QOne
\* C08: every k-subset equally likely, hence inclusion k/n
RECURSIVE Binom(_, _)
Binom(a, b) == IF b = 0 \/ b = a THEN 1 ELSE Binom(a - 1, b - 1) + Binom(a - 1, b)
UniformSubsets == (Law = "uniform" /\ n >= K) =>
      \A S \in { T \in SUBSET (1..n) : Cardinality(T) = K } :
          Mass({ r \in DOMAIN dist : AsSet(r) = S }) = <<1, Binom(n, K)>>
UniformInclusion == (Law = "uniform" /\ n >= K) => \A t \in 1..n : Incl(t) = QDiv(QInt(K), QInt(n))
Emit == PrintT(ToJson([n |-> n, p |-> p, keys |-> [i \in 1..Cardinality(Support) |-> SetToSeq(Support)[i]],
                       mass |-> [i \in 1..Cardinality(Support) |-> dist[SetToSeq(Support)[i]]]]))
==============================================================================
