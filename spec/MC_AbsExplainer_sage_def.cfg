SPECIFICATION BSpec
CONSTANTS
 Mode = "sage"
 D = 2
 NInner = 2
 Kind = "es"
 Alpha <- A_1_2
 StoreKind = "interval"
 Cap = 2
 Strategy = "default"
 NOver = 1
 ModelKind = "scalar"
 MaxCalls = 4
 AllowNoUpd = FALSE
INVARIANT AEfficiency
INVARIANT ALockStep
INVARIANT AVarNonNegative
INVARIANT AKeys
INVARIANT AStoreBound
INVARIANT AMargPredNormalised
PROPERTY AMonotone
CHECK_DEADLOCK FALSE
