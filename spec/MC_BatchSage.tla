---------------------------- MODULE MC_BatchSage ----------------------------
(* C05 (efficiency part): one BatchSage explanation (imputer mode and original mode) of   *)
(* every small data set, for every feature order and every background-row draw.            *)
EXTENDS Integers, Sequences, FiniteSets, FieldQ, TLC, Json
CONSTANTS D, NInner, MaxRows
E == INSTANCE BatchEnv
B == INSTANCE BatchSteps WITH FAdd <- QAdd, FSub <- QSub, FMul <- QMul, FDiv <- QDiv, FInt <- QInt
VARIABLES data, mode, values, ps, drs, done
vars == <<data, mode, values, ps, drs, done>>
Datasets == UNION { [1..m -> E!Items] : m \in 1..MaxRows }
AsStore(ds) == [sx |-> [i \in 1..Len(ds) |-> ds[i][1]], sy |-> [i \in 1..Len(ds) |-> ds[i][2]]]
Init == /\ data \in Datasets /\ mode \in {"imputer", "original"}
        /\ values = <<>> /\ ps = <<>> /\ drs = <<>> /\ done = FALSE
\* explain_many / explain_many_original: both draw one uniform order per observation and, per inner
\* sample, one background row from the whole data set (imputer mode: through the joint marginal
\* imputer on the batch storage; original mode: directly from x_data)
Explain == /\ ~done
           /\ LET m == Len(data) IN
              \E p \in [1..m -> E!Perms], dr \in [1..m -> [1..D -> [1..NInner -> 1..m]]] :
                 /\ values' = E!ExplainMany(AsStore(data), p, dr) /\ ps' = p /\ drs' = dr
           /\ done' = TRUE /\ UNCHANGED <<data, mode>>
Spec == Init /\ [][Explain]_vars
BatchEfficiency == done => B!SumValues(values) = E!ExplainedLossOf(AsStore(data))
ValuesForAllFeatures == done => DOMAIN values = E!Feat
Emit == done => PrintT(ToJson([data |-> data, mode |-> mode, ps |-> ps, drs |-> drs, values |-> values]))
==============================================================================
