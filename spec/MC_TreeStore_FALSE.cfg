SPECIFICATION Spec
CONSTANTS LeafIds <- L3
 Cap = 2
 MaxUpdates = 4
 LazyPurge = FALSE
INVARIANT ReservoirKeysAreLeaves
INVARIANT ReservoirBounded
INVARIANT ContentsObserved
INVARIANT NewestInRoutedLeaf
INVARIANT NoDuplicates
CHECK_DEADLOCK FALSE
