SPECIFICATION Spec
CONSTANTS D = 2
 NInner = 1
 MaxRows = 2
 CommitInPlace = TRUE
 MaxFaults = 1
 MaxCalls = 1
INVARIANT FaultAtomic
INVARIANT BatchEfficiency
INVARIANT ModelBudget
CHECK_DEADLOCK FALSE
