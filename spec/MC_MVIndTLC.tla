---------------------------- MODULE MC_MVIndTLC ----------------------------
(* TLC side of MVInd.tla: driven in lock step with Trackers!MVUpd (Welford base tracker, every value 1), the       *)
(* skeleton's key set, update count and per-key counts are those of the real step function.                        *)
EXTENDS MVInd, FieldQ, TLC
T == INSTANCE Trackers WITH FAdd <- QAdd, FSub <- QSub, FMul <- QMul, FDiv <- QDiv, FInt <- QInt
VARIABLE mv
TInit == Init /\ mv = T!MVInit
TNext == \E U \in SUBSET Keys : Update(U) /\ mv' = T!MVUpd("welford", QOne, mv, [k \in U |-> QOne])
TSpec == TInit /\ [][TNext]_<<n, tracked, fed, first, mv>>
Bound == n <= 5
\* the step the TLAPS proof (MVIndProof.tla: any key set, any number of updates) is about is this module's step
P == INSTANCE MVIndProof
ProofIsAboutThisStep == [][P!Next <=> Next]_<<n, tracked, fed, first>>
ProofInvariant == P!IndInv
SkeletonIsMVUpd == /\ DOMAIN mv.trk = tracked /\ mv.n = n
                   /\ \A k \in tracked : mv.trk[k].n = fed[k]
=============================================================================
