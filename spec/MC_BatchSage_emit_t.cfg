SPECIFICATION Spec
CONSTANTS D = 2
 NInner = 2
 MaxRows = 2
INVARIANT Emit
CHECK_DEADLOCK FALSE
