SPECIFICATION Spec
CONSTANTS
 Mode = "sage"
 D = 2
 NInner = 1
 Kind = "es"
 Alpha <- A_1_2
 StoreKind = "interval"
 Cap = 2
 Strategy = "joint"
 NOver = 2
 ModelKind = "scalar"
 CommitEarly = FALSE
 MaxCalls = 3
 MaxFaults = 1
 AllowNoUpd = FALSE
INVARIANT Efficiency
INVARIANT FaultAtomic
INVARIANT LockStep
INVARIANT RunningStatistic
INVARIANT VarNonNegative
INVARIANT ContributionDefinition
INVARIANT ChainEndsAtModelLoss
INVARIANT BudgetOnExplained
INVARIANT FirstCallNoModel
INVARIANT FirstCallSeedsOnly
INVARIANT StoreOnce
INVARIANT NeverOwnBackground
PROPERTY StoreAfterExplanation
PROPERTY SeenCountsReturns
PROPERTY CommitIsLinear
CHECK_DEADLOCK FALSE
