SPECIFICATION Spec
CONSTANTS
 Cap = 3
 Sliding = FALSE
 Buggy = FALSE
CONSTRAINT Bound
INVARIANT KernelIsStorages
INVARIANT IndInv
INVARIANT C07
INVARIANT ProofInvariants
PROPERTY ProofIsAboutThisStep
CHECK_DEADLOCK FALSE
