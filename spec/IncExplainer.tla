---------------------------- MODULE IncExplainer ----------------------------
(* IncrementalSage / IncrementalPFI (ixai/explainer/sage/incremental.py, pfi.py) at the    *)
(* grain of the implementation: one action per callback invocation (model, loss, imputer,   *)
(* storage), per random draw and per commit point of explain_one.                           *)
(*                                                                                          *)
(* The specification models the *intended* commit discipline                                *)
(*     all callbacks  ->  storage update  ->  one atomic commit of all trackers -> seen+1   *)
(* CommitEarly = TRUE switches to the order the code had before the C17 repair (loss and     *)
(* prediction trackers committed between callbacks, importance before the storage update);  *)
(* it is kept as a negative control that TLC must refute.                                   *)
(*                                                                                          *)
(* Environment: the model and the loss are uninterpreted tables (ModelKind selects one),    *)
(* every random choice (feature order, background rows, reservoir outcome) is enumerated,   *)
(* and Fault may strike at every callback step.                                             *)
EXTENDS Integers, Sequences, FiniteSets, FiniteSetsExt, SequencesExt, FieldQ, TLC
CONSTANTS Mode,          \* "sage" | "pfi"
          D,             \* number of features
          NInner,        \* inner samples per imputation
          Kind,          \* "es" (dynamic) | "welford" (static)
          Alpha,         \* smoothing parameter, a rational <<n, d>>
          StoreKind,     \* "batch" | "interval" | "geometric" | "uniform"
          Cap,           \* storage capacity
          Strategy,      \* "joint" | "product" (MarginalImputer) | "default" (DefaultImputer: configured values, one evaluation)
          NOver,         \* per-call n_inner_samples override explored in addition to the constructor value (0 = none)
          ModelKind,     \* "scalar" | "multi"
          CommitEarly,   \* negative control
          MaxCalls, MaxFaults,
          AllowNoUpd     \* also explore update_storage = False
T == INSTANCE Trackers WITH FAdd <- QAdd, FSub <- QSub, FMul <- QMul, FDiv <- QDiv, FInt <- QInt
S == INSTANCE ExplainerSteps WITH FAdd <- QAdd, FSub <- QSub, FMul <- QMul, FDiv <- QDiv, FInt <- QInt
St == INSTANCE Storages
Feat == 1..D

(* ---- environment: stream items, model table, loss table (IncEnv.tla, shared with AbsExplainer.tla) ---- *)
Env == INSTANCE IncEnv
Items == Env!Items
Model(x) == Env!Model(x)
Loss(y, p) == Env!Loss(y, p)

VARIABLES
   \* persistent state of the explainer
   seen, imp, var, ml, mo, mp, margPred, store, arrivals,
   \* control state and locals of the explain_one call in progress
   pc, cur, upd, ncur, order, pos, smp, preds, inp, L, Lm, pred0, groups, lk, rows, nmodel, stored, cb, schoice, fcb,
   \* history / bookkeeping used only by properties
   snap, outcome, ncalls, nfaults, contribHist

persist == <<seen, imp, var, ml, mo, mp, margPred, store, arrivals>>
locals == <<cur, upd, ncur, order, pos, smp, preds, inp, L, Lm, pred0, groups, lk, rows, nmodel, stored, cb, schoice, fcb>>
hist == <<snap, outcome, ncalls, nfaults, contribHist>>
vars == <<persist, pc, locals, hist>>
est == <<imp, var, ml, mo, mp, margPred>>

Init == /\ seen = 0 /\ imp = T!MVInit /\ var = T!MVInit /\ ml = T!TInit /\ mo = T!TInit /\ mp = T!MVInit
        /\ margPred = <<>> /\ store = St!Empty /\ arrivals = 0
        /\ pc = "idle" /\ cur = <<>> /\ upd = TRUE /\ ncur = NInner /\ order = <<>> /\ pos = 0 /\ smp = 0 /\ preds = <<>>
        /\ inp = <<>> /\ L = <<>> /\ Lm = QZero /\ pred0 = <<>> /\ groups = <<>> /\ lk = 0 /\ rows = <<>>
        /\ nmodel = 0 /\ stored = 0 /\ cb = 0 /\ schoice = 0 /\ fcb = 0
        /\ snap = <<>> /\ outcome = "none" /\ ncalls = 0 /\ nfaults = 0 /\ contribHist = <<>>

X == cur[1]
Y == cur[2]
Rows == store.sx
\* the subset handed to the imputer at position pos
Subset == IF Mode = "sage" THEN S!NotInS(Feat, order, pos) ELSE {order[pos]}
mpNext == T!MVUpd(Kind, Alpha, mp, pred0)                  \* marginal-prediction tracker after this call

Begin(it, u, n) ==
   /\ pc = "idle" /\ ncalls < MaxCalls
   /\ cur' = it /\ upd' = u /\ ncur' = n /\ snap' = est /\ ncalls' = ncalls + 1 /\ outcome' = "running"
   /\ order' = (IF Mode = "pfi" THEN [j \in Feat |-> j] ELSE <<>>)
   /\ pos' = 0 /\ smp' = 0 /\ preds' = <<>> /\ inp' = <<>> /\ L' = <<>> /\ Lm' = QZero /\ pred0' = <<>>
   /\ groups' = [f \in Feat |-> <<>>] /\ lk' = 0 /\ rows' = <<>> /\ nmodel' = 0 /\ stored' = 0
   /\ cb' = 0 /\ schoice' = 0 /\ fcb' = 0
   /\ pc' = IF seen = 0 THEN (IF u THEN "store" ELSE "ret")
            ELSE IF Mode = "sage" THEN "perm" ELSE "model"
   /\ UNCHANGED <<persist, nfaults, contribHist>>

\* np.random.permutation(feature_names): one uniform order per explained observation
DrawPerm(p) ==
   /\ pc = "perm" /\ order' = p /\ pc' = "model"
   /\ UNCHANGED <<persist, cur, upd, ncur, pos, smp, preds, inp, L, Lm, pred0, groups, lk, rows, nmodel, stored, cb, schoice, fcb, hist>>

\* callback: model(x_i)
CallModel ==
   /\ pc = "model" /\ pred0' = Model(X) /\ nmodel' = nmodel + 1 /\ pc' = "lossmodel"
   /\ UNCHANGED <<persist, cur, upd, ncur, order, pos, smp, preds, inp, L, Lm, groups, lk, rows, stored, schoice, fcb, hist>>
   /\ cb' = cb + 1

\* callback: loss(y_i, model(x_i))
CallLossModel ==
   /\ pc = "lossmodel" /\ Lm' = Loss(Y, pred0)
   /\ pc' = IF Mode = "sage" THEN "lossmarg" ELSE "impute"
   /\ pos' = IF Mode = "sage" THEN pos ELSE 1
   /\ IF CommitEarly /\ Mode = "sage"
      THEN /\ mo' = T!TUpdV(Kind, Alpha, mo, Loss(Y, pred0)) /\ mp' = mpNext /\ margPred' = T!MVNorm(mpNext)
           /\ UNCHANGED <<seen, imp, var, ml, store, arrivals>>
      ELSE UNCHANGED persist
   /\ UNCHANGED <<cur, upd, ncur, order, smp, preds, inp, L, pred0, groups, lk, rows, nmodel, stored, schoice, fcb, hist>>
   /\ cb' = cb + 1

\* callback: loss(y_i, normalised running mean prediction *including* this observation)
MargPredNow == IF CommitEarly THEN T!MVNorm(mp) ELSE T!MVNorm(mpNext)
CallLossMarg ==
   /\ pc = "lossmarg" /\ L' = <<Loss(Y, MargPredNow)>> /\ pc' = "impute" /\ pos' = 1
   /\ IF CommitEarly THEN /\ ml' = T!TUpdV(Kind, Alpha, ml, Loss(Y, MargPredNow))
                          /\ UNCHANGED <<seen, imp, var, mo, mp, margPred, store, arrivals>>
      ELSE UNCHANGED persist
   /\ UNCHANGED <<cur, upd, ncur, order, smp, preds, inp, Lm, pred0, groups, lk, rows, nmodel, stored, schoice, fcb, hist>>
   /\ cb' = cb + 1

\* callback: imputer.impute(subset, x_i, n) is entered
ImputeBegin ==
   /\ pc = "impute" /\ pc' = "draw" /\ smp' = 1 /\ preds' = <<>>
   /\ rows' = Append(rows, <<>>)
   /\ UNCHANGED <<persist, cur, upd, ncur, order, pos, inp, L, Lm, pred0, groups, lk, nmodel, stored, schoice, fcb, hist>>
   /\ cb' = cb + 1

\* random draw(s) of one inner sample: joint = one row for all features, product = a row per feature
Defaults == Env!Defaults                      \* values configured for the DefaultImputer
Draws == IF pc # "draw" THEN {}
         ELSE IF Strategy = "joint" THEN { [f \in Subset |-> r] : r \in 1..Len(Rows) }
         ELSE IF Strategy = "product" THEN [Subset -> 1..Len(Rows)]
         ELSE { [f \in Subset |-> 0] }         \* no random draw at all
ImputeDraw(dr) ==
   /\ pc = "draw" /\ (Len(Rows) > 0 \/ Strategy = "default")
   /\ inp' = [f \in Feat |-> IF f \in Subset THEN (IF Strategy = "default" THEN Defaults[f] ELSE Rows[dr[f]][f]) ELSE X[f]]
   /\ rows' = [rows EXCEPT ![Len(rows)] = Append(@, dr)]
   /\ pc' = "imodel"
   /\ UNCHANGED <<persist, cur, upd, ncur, order, pos, smp, preds, L, Lm, pred0, groups, lk, nmodel, stored, cb, schoice, fcb, hist>>

\* callback: model(imputed input)
ImputeModel ==
   /\ pc = "imodel" /\ nmodel' = nmodel + 1
   /\ IF Strategy = "default"
      THEN preds' = [k \in 1..ncur |-> Model(inp)] /\ smp' = smp /\ pc' = "lossfeat" /\ lk' = 1
      ELSE /\ preds' = Append(preds, Model(inp))
           /\ IF smp < ncur THEN smp' = smp + 1 /\ pc' = "draw" /\ lk' = lk
              ELSE smp' = smp /\ pc' = "lossfeat" /\ lk' = 1
   /\ UNCHANGED <<persist, cur, upd, ncur, order, pos, inp, L, Lm, pred0, groups, rows, stored, schoice, fcb, hist>>
   /\ cb' = cb + 1

Advance == IF pos = D THEN /\ pc' = (IF CommitEarly THEN "commit" ELSE IF upd THEN "store" ELSE "commit")
                           /\ pos' = pos
           ELSE pc' = "impute" /\ pos' = pos + 1

\* callback: SAGE - loss of the *mean* prediction; PFI - loss of each of the n predictions
LossFeat ==
   /\ pc = "lossfeat"
   /\ IF Mode = "sage"
      THEN /\ L' = Append(L, Loss(Y, T!MeanOutput(preds))) /\ Advance /\ UNCHANGED <<groups, lk>>
      ELSE /\ groups' = [groups EXCEPT ![order[pos]] = Append(@, Loss(Y, preds[lk]))]
           /\ IF lk < Len(preds) THEN lk' = lk + 1 /\ UNCHANGED <<pc, pos>> ELSE lk' = lk /\ Advance
           /\ UNCHANGED L
   /\ UNCHANGED <<persist, cur, upd, ncur, order, smp, preds, inp, Lm, pred0, rows, nmodel, stored, schoice, fcb, hist>>
   /\ cb' = cb + 1

Contrib == IF Mode = "sage" THEN S!SageContrib(order, L) ELSE S!PfiContrib(groups, Lm)

CommitAll ==
   LET c == Contrib
       imp2 == S!ImpUpd(Kind, Alpha, imp, c)
   IN /\ imp' = imp2 /\ var' = S!VarUpd(Kind, Alpha, var, imp2, c)
      /\ contribHist' = Append(contribHist, c)
      /\ IF Mode = "sage" /\ ~CommitEarly
         THEN /\ mo' = T!TUpdV(Kind, Alpha, mo, Lm) /\ mp' = mpNext /\ margPred' = T!MVNorm(mpNext)
              /\ ml' = T!TUpdV(Kind, Alpha, ml, L[1])
         ELSE UNCHANGED <<ml, mo, mp, margPred>>

\* the tracker commit: atomic, after every callback (and, in the intended order, after the storage update)
Commit ==
   /\ pc = "commit" /\ CommitAll
   /\ pc' = IF CommitEarly /\ upd THEN "store" ELSE "ret"
   /\ UNCHANGED <<seen, store, arrivals, locals, snap, outcome, ncalls, nfaults>>

\* callback: storage.update(x_i, y_i); reservoir outcomes are enumerated
StoreUpdate(choice) ==
   /\ pc = "store" /\ choice \in St!Choices(StoreKind, Cap, store)
   /\ store' = St!Update(StoreKind, Cap, FALSE, store, cur, choice)
   /\ arrivals' = arrivals + 1 /\ stored' = stored + 1
   /\ pc' = IF seen = 0 \/ CommitEarly THEN "ret" ELSE "commit"
   /\ cb' = cb + 1 /\ schoice' = choice
   /\ UNCHANGED <<seen, imp, var, ml, mo, mp, margPred, cur, upd, ncur, order, pos, smp, preds, inp, L, Lm, pred0, groups,
                  lk, rows, nmodel, fcb, hist>>

Return ==
   /\ pc = "ret" /\ seen' = seen + 1 /\ pc' = "idle" /\ outcome' = "ok"
   /\ UNCHANGED <<imp, var, ml, mo, mp, margPred, store, arrivals, locals, snap, ncalls, nfaults, contribHist>>

\* any callback may raise; the exception propagates out of explain_one
CallbackSteps == {"model", "lossmodel", "lossmarg", "impute", "imodel", "lossfeat", "store"}
Fault ==
   /\ pc \in CallbackSteps /\ nfaults < MaxFaults
   /\ pc' = "idle" /\ outcome' = "exc" /\ nfaults' = nfaults + 1
   \* whether a failed call counts as seen is left open by the properties
   /\ seen' \in {seen, seen + 1} /\ fcb' = cb + 1
   /\ UNCHANGED <<imp, var, ml, mo, mp, margPred, store, arrivals, cur, upd, ncur, order, pos, smp, preds, inp, L, Lm, pred0,
                  groups, lk, rows, nmodel, stored, cb, schoice, snap, ncalls, contribHist>>

\* a naturally occurring failure: the imputer finds the storage empty (update_storage = False before)
EmptyStorageFault ==
   /\ pc = "draw" /\ Len(Rows) = 0 /\ Strategy # "default"
   /\ pc' = "idle" /\ outcome' = "exc" /\ seen' \in {seen, seen + 1}
   /\ UNCHANGED <<imp, var, ml, mo, mp, margPred, store, arrivals, locals, snap, ncalls, nfaults, contribHist>>

Next == \/ \E it \in Items, u \in (IF AllowNoUpd THEN BOOLEAN ELSE {TRUE}), n \in ({NInner} \cup (IF NOver > 0 THEN {NOver} ELSE {})) : Begin(it, u, n)
        \/ \E p \in { q \in [1..D -> Feat] : \A a, b \in 1..D : a # b => q[a] # q[b] } : DrawPerm(p)
        \/ CallModel \/ CallLossModel \/ CallLossMarg \/ ImputeBegin
        \/ \E dr \in Draws : ImputeDraw(dr)
        \/ ImputeModel \/ LossFeat \/ Commit
        \/ \E c \in 0..Cap : StoreUpdate(c)
        \/ Return \/ Fault \/ EmptyStorageFault
Spec == Init /\ [][Next]_vars

(* ======================= properties ======================= *)
Idle == pc = "idle"
SumImp == T!FSumFun(T!MVGet(imp))

\* C01: the SAGE values sum to marginal loss - model loss after every call (also after faults)
Efficiency == (Mode = "sage" /\ Idle) => SumImp = QSub(ml.val, mo.val)

\* C17: a call that raised left the estimates exactly as they were when it began
FaultAtomic == outcome = "exc" => est = snap

\* all trackers advance in lock step (the three series have equal length)
LockStep == Idle => /\ \A f \in DOMAIN imp.trk : imp.trk[f].n = Len(contribHist)
                    /\ \A f \in DOMAIN var.trk : var.trk[f].n = Len(contribHist)
                    /\ imp.n = Len(contribHist) /\ var.n = Len(contribHist)
                    /\ Mode = "sage" => ml.n = Len(contribHist) /\ mo.n = Len(contribHist) /\ mp.n = Len(contribHist)

\* C02 / C03: importance = configured running statistic of the per-observation contributions,
\* variance = same statistic of the squared deviation from the *updated* estimate
Stat(h) == IF h = <<>> THEN QZero
           ELSE IF Kind = "es"
                THEN T!FSumSeq([i \in 1..Len(h) |-> QMul(QMul(Alpha, QPow(QSub(QOne, Alpha), Len(h) - i)), h[i])])
                ELSE QDiv(T!FSumSeq(h), QInt(Len(h)))
HistOf(f) == [i \in 1..Len(contribHist) |-> contribHist[i][f]]
DevOf(f) == [i \in 1..Len(contribHist) |-> QSq(QSub(contribHist[i][f], Stat(SubSeq(HistOf(f), 1, i))))]
RunningStatistic == Idle => \A f \in DOMAIN imp.trk : /\ imp.trk[f].val = Stat(HistOf(f))
                                                      /\ var.trk[f].val = Stat(DevOf(f))
VarNonNegative == \A f \in DOMAIN var.trk : QLeq(QZero, var.trk[f].val)

\* C02 / C03: the contribution, re-derived declaratively from the recorded draws
ImputedInput(j, dr) == LET sub == IF Mode = "sage" THEN S!NotInS(Feat, order, j) ELSE {order[j]}
                       IN [f \in Feat |-> IF f \in sub THEN (IF Strategy = "default" THEN Defaults[f] ELSE Rows[dr[f]][f]) ELSE X[f]]
DeclPreds(j) == IF Strategy = "default" THEN [k \in 1..ncur |-> Model(ImputedInput(j, rows[j][1]))]
                ELSE [k \in 1..Len(rows[j]) |-> Model(ImputedInput(j, rows[j][k]))]
DeclSage(f) == LET j == S!PosOf(order, f)
                   before == IF j = 1 THEN Loss(Y, T!MVNorm(T!MVUpd(Kind, Alpha, snap[5], Model(X))))
                             ELSE Loss(Y, T!MeanOutput(DeclPreds(j - 1)))
               IN QSub(before, Loss(Y, T!MeanOutput(DeclPreds(j))))
DeclPfi(f) == QSub(S!MeanSeq([k \in 1..Len(rows[f]) |-> Loss(Y, DeclPreds(f)[k])]), Loss(Y, Model(X)))
ContributionDefinition ==
   (pc \in {"store", "commit"} /\ seen >= 1 /\ stored = 0 /\ Len(rows) = D) =>
       \A f \in Feat : Contrib[f] = (IF Mode = "sage" THEN DeclSage(f) ELSE DeclPfi(f))
\* the SAGE chain ends at the model's own loss (empty imputation subset)
ChainEndsAtModelLoss == (Mode = "sage" /\ Len(L) = D + 1) => L[D + 1] = Lm

\* C15: evaluation budget, seen counter, storage discipline
FirstCallNoModel == (pc = "ret" /\ Len(rows) = 0 /\ L = <<>> /\ pred0 = <<>>) => nmodel = 0
BudgetOnExplained == (pc = "ret" /\ Len(L) + Len(rows) > 0) => nmodel = 1 + D * (IF Strategy = "default" THEN 1 ELSE ncur)
FirstCallSeedsOnly == (seen = 1 /\ Idle /\ outcome = "ok" /\ ncalls = 1) =>
                         /\ est = <<T!MVInit, T!MVInit, T!TInit, T!TInit, T!MVInit, <<>>>>
                         /\ Len(store.sx) = (IF upd THEN 1 ELSE 0)
StoreOnce == stored <= (IF upd THEN 1 ELSE 0)
\* the storage is only ever updated after the last model / loss / imputer callback of the call
StoreAfterExplanation == [][(stored' = stored + 1) => (pc = "store" /\ (seen = 0 \/ (pos = D /\ pc' \in {"commit", "ret"})))]_vars
\* an observation is never part of its own background: every drawn row arrived in an earlier call
NeverOwnBackground == pc \in {"draw", "imodel", "lossfeat", "impute"} => stored = 0
SeenCountsReturns == [][(outcome' = "ok" /\ outcome # "ok") => seen' = seen + 1]_vars

\* the form of the commit that EffProof.tla (TLAPS: efficiency for streams of any length) assumes: every tracker applies
\* the same linear map val' = P * val + Q * v to its series - P = 1 - alpha, Q = alpha for exponential smoothing; for the
\* Welford mean the running sums S = n * mean follow S' = S + v (P = Q = 1) - and the chain of losses ends at the model loss
OldVal(m, f) == IF f \in DOMAIN m.trk THEN m.trk[f].val ELSE QZero
OldN(m, f) == IF f \in DOMAIN m.trk THEN m.trk[f].n ELSE 0
LinearUpd(old, oldn, new, v) ==
   IF Kind = "es" THEN new.val = QAdd(QMul(QSub(QOne, Alpha), old), QMul(Alpha, v))
   ELSE QMul(QInt(oldn + 1), new.val) = QAdd(QMul(QInt(oldn), old), v)
CommitIsLinear ==
   [][(pc = "commit" /\ pc' # "commit" /\ Mode = "sage" /\ ~CommitEarly) =>
        /\ L[D + 1] = Lm
        /\ \A f \in Feat : LinearUpd(OldVal(imp, f), OldN(imp, f), imp'.trk[f],
                                      QSub(L[S!PosOf(order, f)], L[S!PosOf(order, f) + 1]))
        /\ LinearUpd(ml.val, ml.n, ml', L[1]) /\ LinearUpd(mo.val, mo.n, mo', Lm)]_vars

(* ---- liveness (checked under weak fairness of the steps of a running call; callbacks terminate) ---- *)
\* every step except the environment's decision to make another call
InCall == pc # "idle"
CallStep == InCall /\ Next
FairSpec == Spec /\ WF_vars(CallStep)
\* an explain_one call that was entered eventually returns or raises: no step of the call waits for anything
CallTerminates == InCall ~> ~InCall
\* ... and a call that returns was counted and, when asked to, stored (progress, not only safety)
ReturnCounts == [](outcome = "running" => <>(outcome \in {"ok", "exc"}))
=============================================================================
