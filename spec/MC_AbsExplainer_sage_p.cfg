SPECIFICATION BSpec
CONSTANTS
 Mode = "sage"
 D = 2
 NInner = 1
 Kind = "es"
 Alpha <- A_1_2
 StoreKind = "uniform"
 Cap = 2
 Strategy = "product"
 NOver = 0
 ModelKind = "scalar"
 MaxCalls = 4
 AllowNoUpd = FALSE
INVARIANT AEfficiency
INVARIANT ALockStep
INVARIANT AVarNonNegative
INVARIANT AKeys
INVARIANT AStoreBound
INVARIANT AMargPredNormalised
PROPERTY AMonotone
CHECK_DEADLOCK FALSE
