---------------------------- MODULE TreeSteps ----------------------------
(* Pure step functions of TreeStorage's reservoir bookkeeping (one feature).  rs: function *)
(* leaf id -> sequence of arrival ids; L2: leaf set of the tree after learn_one; r: leaf the *)
(* new point t is routed to; c: slot chosen by the always-insert (p = 1) reservoir.          *)
EXTENDS Integers, Sequences, FiniteSets
Purge(rs, L2) == [l \in (DOMAIN rs) \cap L2 |-> rs[l]]
Insert(rs, r, t, c, cap) ==
   LET old == IF r \in DOMAIN rs THEN rs[r] ELSE <<>>
       new == IF Len(old) < cap THEN Append(old, t) ELSE [old EXCEPT ![c] = t]
   IN [l \in (DOMAIN rs) \cup {r} |-> IF l = r THEN new ELSE rs[l]]
\* intended: purge the reservoirs of vanished leaves on every update, then insert
Step(rs, L2, r, t, c, cap) == Insert(Purge(rs, L2), r, t, c, cap)
\* the code before the repair: purge only when the routed leaf id is new
StepLazyPurge(rs, L2, r, t, c, cap) == IF r \in DOMAIN rs THEN Insert(rs, r, t, c, cap)
                                       ELSE Purge(Insert(rs, r, t, c, cap), L2)
===========================================================================
