SPECIFICATION Spec
CONSTANTS MaxN = 5
 MaxCap = 2
INVARIANT Emit
CHECK_DEADLOCK FALSE
