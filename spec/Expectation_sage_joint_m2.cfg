CONSTANTS D = 2
 NInner = 1
 M = 2
 Strategy = "joint"
 Mode = "sage"
