SPECIFICATION Spec
CONSTANTS K = 2
 MaxN = 7
 Law = "geometric"
INVARIANT Total
INVARIANT KernelIsStorages
INVARIANT GeometricLaw
INVARIANT AlwaysStoredWhenPOne
INVARIANT UniformSubsets
INVARIANT UniformInclusion
CHECK_DEADLOCK FALSE
