SPECIFICATION Spec
CONSTANTS
 Mode = "sage"
 D = 2
 NInner = 1
 Kind = "welford"
 Alpha <- A_1_2
 StoreKind = "geometric"
 Cap = 2
 Strategy = "product"
 NOver = 0
 ModelKind = "multi"
 CommitEarly = FALSE
 MaxCalls = 3
 MaxFaults = 1
 AllowNoUpd = TRUE
INVARIANT Efficiency
INVARIANT FaultAtomic
INVARIANT LockStep
INVARIANT RunningStatistic
INVARIANT VarNonNegative
INVARIANT ContributionDefinition
INVARIANT ChainEndsAtModelLoss
INVARIANT BudgetOnExplained
INVARIANT FirstCallNoModel
INVARIANT FirstCallSeedsOnly
INVARIANT StoreOnce
INVARIANT NeverOwnBackground
PROPERTY StoreAfterExplanation
PROPERTY SeenCountsReturns
PROPERTY CommitIsLinear
CHECK_DEADLOCK FALSE
