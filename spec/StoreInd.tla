---------------------------- MODULE StoreInd ----------------------------
(* Inductive invariants of the bounded storages for streams of ANY length (Apalache; TLC     *)
(* explores Storages.tla only up to a stream-length bound).  Arrivals are numbered 1, 2, ..., *)
(* the target that arrives with item t is 100 + t.                                           *)
(*   Sliding = TRUE : IntervalStorage (SequenceStorage for Cap = 1) - holds exactly the last  *)
(*                    min(n, Cap) arrivals in arrival order;                                 *)
(*   Sliding = FALSE: the reservoirs - any outcome of the random draw (keep, or replace slot *)
(*                    c) leaves min(n, Cap) distinct observed arrivals with aligned targets. *)
(* The step kernels are those of Storages.tla (Put / Shift / Replace), written out with the  *)
(* type annotations Apalache needs.  Buggy = TRUE is the negative control (the off-by-one     *)
(* "full" test), for which the inductive step must fail.                                      *)
EXTENDS Integers, Sequences
CONSTANTS
  \* @type: Int;
  Cap,
  \* @type: Bool;
  Sliding,
  \* @type: Bool;
  Buggy
VARIABLES
  \* @type: Int;
  n,
  \* @type: Seq(Int);
  sx,
  \* @type: Seq(Int);
  sy
Init == n = 0 /\ sx = <<>> /\ sy = <<>>
Full == IF Buggy THEN Len(sx) > Cap ELSE Len(sx) >= Cap
\* the kernels of Storages.tla (Put / Shift / Replace) on one sequence; MC_StoreIndTLC.tla checks with TLC that the
\* successor set built from them is Storages!Successors
\* @type: (Seq(Int), Int) => Seq(Int);
PutX(s, v) == Append(s, v)
\* @type: (Seq(Int), Int) => Seq(Int);
ShiftX(s, v) == Append(Tail(s), v)
\* @type: (Seq(Int), Int, Int) => Seq(Int);
ReplX(s, c, v) == [s EXCEPT ![c] = v]
Update == /\ n' = n + 1
          /\ IF ~Full THEN sx' = PutX(sx, n + 1) /\ sy' = PutX(sy, 100 + n + 1)
             ELSE IF Sliding THEN sx' = ShiftX(sx, n + 1) /\ sy' = ShiftX(sy, 100 + n + 1)
             ELSE \E c \in 0..Cap : IF c = 0 THEN UNCHANGED <<sx, sy>>
                                     ELSE sx' = ReplX(sx, c, n + 1) /\ sy' = ReplX(sy, c, 100 + n + 1)
Next == Update
Min(a, b) == IF a < b THEN a ELSE b
Common == /\ n >= 0
          /\ Len(sx) = Min(n, Cap) /\ Len(sy) = Len(sx)
          /\ \A i \in DOMAIN sy : sy[i] = 100 + sx[i]
IndInv == /\ Common
          /\ IF Sliding THEN \A i \in DOMAIN sx : sx[i] = n - Len(sx) + i
             ELSE /\ \A i \in DOMAIN sx : sx[i] >= 1 /\ sx[i] <= n
                  /\ \A i, j \in DOMAIN sx : i # j => sx[i] # sx[j]
\* what C07 states
Observed == \A i \in DOMAIN sx : sx[i] >= 1 /\ sx[i] <= n
AtMostOnce == \A i, j \in DOMAIN sx : i # j => sx[i] # sx[j]
Count == Len(sx) = Min(n, Cap)
Aligned == Len(sy) = Len(sx) /\ \A i \in DOMAIN sy : sy[i] = 100 + sx[i]
LastCapInOrder == Sliding => \A i \in DOMAIN sx : sx[i] > n - Cap /\ (i > 1 => sx[i] = sx[i - 1] + 1) /\ (i = Len(sx) => sx[i] = n)
C07 == Observed /\ AtMostOnce /\ Count /\ Aligned /\ LastCapInOrder
=========================================================================
