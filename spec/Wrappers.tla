---------------------------- MODULE Wrappers ----------------------------
(* C14: the canonical dict output form of the model wrappers.                             *)
(* (1) array-returning prediction functions (SklearnWrapper, TorchWrapper): a case         *)
(*     enumeration over output shape x input kind x feature_names; every TLC state is one   *)
(*     implementation test.  The abstract model computes, for input row r (a function from  *)
(*     feature names to values), the output vector  Out(r)[j] = j * sum of the values that  *)
(*     reach the model in the order they reach it (position-weighted, so that order and     *)
(*     selection of features are visible).                                                  *)
(* (2) RiverWrapper with string labels: a state machine over the set of labels seen so far. *)
EXTENDS Integers, Sequences, FiniteSets, FiniteSetsExt, TLC, Json
AllFeatures == <<"a", "b", "c">>
Shapes == {"scalar", "one", "one_one", "n", "n_one", "n_c"}   \* (), (1,), (1,1), (n,), (n,1), (n,c)
VARIABLES mode, shape, batch, names, keyorder, seen, outs, labels
vars == <<mode, shape, batch, names, keyorder, seen, outs, labels>>
NameChoices == { <<>>, <<"a", "b", "c">>, <<"c", "a", "b">>, <<"b", "a">>, <<"c">> }     \* <<>> = no feature_names
KeyOrders == { <<"a", "b", "c">>, <<"c", "b", "a">>, <<"b", "c", "a">> }
\* row i of the input data: feature f has value 10 * i + index of f
Index(f) == CHOOSE k \in 1..3 : AllFeatures[k] = f
Val(i, f) == 10 * i + Index(f)
\* what reaches the model for row i: the named features in the given order, or all keys in dict order
ReachingKO(i, ko) == IF names = <<>> THEN [k \in 1..3 |-> Val(i, ko[k])]
                     ELSE [k \in 1..Len(names) |-> Val(i, names[k])]
Reaching(i) == ReachingKO(i, keyorder)
WSum(v) == FoldSet(LAMBDA k, acc : k * v[k] + acc, 0, DOMAIN v)
C == 3
\* canonical dict of one output row: size one -> {"output": v}, vector -> {index: v_index}
CanonicalRow(i, width) == IF width = 1 THEN [k \in {"output"} |-> WSum(Reaching(i))]
                          ELSE [k \in 0..(width - 1) |-> (k + 1) * WSum(Reaching(i))]
Width == IF shape = "n_c" THEN C ELSE 1
\* shapes a single-dict call can produce vs shapes of a batch call
ValidCase == /\ (batch = 0 => shape \in {"scalar", "one", "one_one", "n_c"})
             /\ (batch > 0 => shape \in {"n", "n_one", "n_c"})
Init == \/ /\ mode = "array" /\ shape \in Shapes /\ batch \in 0..3 /\ names \in NameChoices /\ keyorder \in KeyOrders
           /\ ValidCase /\ seen = {} /\ outs = <<>> /\ labels = <<>>
        \/ /\ mode = "river" /\ shape = "label" /\ batch = 0 /\ names = <<>> /\ keyorder = AllFeatures
           /\ seen = {} /\ outs = <<>> /\ labels = <<>>
        \/ /\ mode = "array_seq" /\ shape = "n_c" /\ batch = 0 /\ names \in NameChoices /\ keyorder = AllFeatures
           /\ seen = {} /\ outs = <<>> /\ labels = <<>>
\* expected result of the wrapper call of an "array" case: a dict (batch = 0) or the list of row dicts
Expected == IF batch = 0 THEN CanonicalRow(1, Width) ELSE [i \in 1..batch |-> CanonicalRow(i, Width)]
\* (3) one wrapper object receiving a *sequence* of calls with changing key orders, dict and list inputs and
\*     extra keys: the wrapper is stateless, every result is the canonical form of that call's input alone
NextOrder(ko) == <<ko[2], ko[3], ko[1]>>
Calls == [ko : KeyOrders, batch : {0, 2}, extra : BOOLEAN]
RowOrder(c, i) == IF i = 1 THEN c.ko ELSE NextOrder(c.ko)        \* rows of one batch use different key orders
CallExpected(c) == IF c.batch = 0 THEN [k \in 0..(C - 1) |-> (k + 1) * WSum(ReachingKO(1, c.ko))]
                   ELSE [i \in 1..c.batch |-> [k \in 0..(C - 1) |-> (k + 1) * WSum(ReachingKO(i, RowOrder(c, i)))]]
SeqStep(c) == /\ mode = "array_seq" /\ Len(labels) < 3
              /\ (c.extra => names # <<>>)          \* without feature names every key reaches the model
              /\ labels' = Append(labels, c) /\ outs' = Append(outs, CallExpected(c))
              /\ UNCHANGED <<mode, shape, batch, names, keyorder, seen>>
Labels == {"x", "y", "z"}
\* river string label: one-hot over the labels seen so far (including the current one)
Predict(l) == /\ mode = "river" /\ Len(labels) < 4
              /\ seen' = seen \cup {l} /\ labels' = Append(labels, l)
              /\ outs' = Append(outs, [k \in seen \cup {l} |-> IF k = l THEN 1 ELSE 0])
              /\ UNCHANGED <<mode, shape, batch, names, keyorder>>
Next == (\E l \in Labels : Predict(l)) \/ (\E c \in Calls : SeqStep(c))
Spec == Init /\ [][Next]_vars
\* with feature names the result does not depend on the key order of the input dict
OrderIndependentWithNames == (mode = "array" /\ names # <<>>) =>
      \A k \in 1..Len(names) : Reaching(1)[k] = Val(1, names[k])
\* a batch call equals the row-wise single calls
BatchEqualsRowwise == (mode = "array" /\ batch > 0) => \A i \in 1..batch : Expected[i] = CanonicalRow(i, Width)
OneHot == mode = "river" => \A i \in 1..Len(outs) : /\ FoldSet(LAMBDA k, acc : outs[i][k] + acc, 0, DOMAIN outs[i]) = 1
                                  /\ outs[i][labels[i]] = 1
                                  /\ DOMAIN outs[i] = { labels[j] : j \in 1..i }
Emit == PrintT(ToJson(IF mode = "array"
                      THEN [mode |-> mode, shape |-> shape, batch |-> batch, names |-> names, keyorder |-> keyorder,
                            width |-> Width, reaching |-> [i \in 1..(IF batch = 0 THEN 1 ELSE batch) |-> Reaching(i)],
                            expected |-> Expected]
                      ELSE IF mode = "river" THEN [mode |-> mode, labels |-> labels, outs |-> outs]
                      ELSE [mode |-> mode, names |-> names, calls |-> labels, expected |-> outs]))
\* a result never depends on earlier calls: equal calls give equal results wherever they occur in the history
Stateless == mode = "array_seq" => \A i, j \in 1..Len(labels) : labels[i] = labels[j] => outs[i] = outs[j]
==========================================================================
