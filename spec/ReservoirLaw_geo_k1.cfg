SPECIFICATION Spec
CONSTANTS K = 1
 MaxN = 6
 Law = "geometric"
INVARIANT Total
INVARIANT KernelIsStorages
INVARIANT GeometricLaw
INVARIANT AlwaysStoredWhenPOne
INVARIANT UniformSubsets
INVARIANT UniformInclusion
CHECK_DEADLOCK FALSE
