---------------------------- MODULE Trace_BatchSage ----------------------------
(* Direction B for C05 (and the batch part of C15 / C17): calls recorded from the real    *)
(* BatchSage / IntervalSage.  An event is one public call; a call that recomputed the      *)
(* explanation carries, per explained observation, the logged order, chain losses and the  *)
(* arguments of the loss calls.  Value clauses are evaluated only for calls whose float     *)
(* arithmetic is exact (dyadic sizes), flagged by the harness.                              *)
EXTENDS TraceBase, FieldP, FiniteSetsExt, SequencesExt
T == INSTANCE Trackers WITH FAdd <- PAdd, FSub <- PSub, FMul <- PMul, FDiv <- PDiv, FInt <- PInt
S == INSTANCE ExplainerSteps WITH FAdd <- PAdd, FSub <- PSub, FMul <- PMul, FDiv <- PDiv, FInt <- PInt
B == INSTANCE BatchSteps WITH FAdd <- PAdd, FSub <- PSub, FMul <- PMul, FDiv <- PDiv, FInt <- PInt
VARIABLES tid, l
vars == <<tid, l>>
Init == tid \in 1..Len(Traces) /\ l = 1
Tr == Traces[tid]
D == Tr.d
Feat == 1..D
Ck(name, ok) == Check(name, tid, l, ok)
Dict(js) == PairsToFun(js)
SetOf(s) == { s[i] : i \in 1..Len(s) }

\* the logged explanation has the shape the value clauses index into (a library that makes other numbers of callbacks,
\* or reports other keys, is answered by these two clauses - never by an evaluation error of the clauses below)
ShapeOK(c) ==
   LET m == Len(c.obs) IN
   /\ Len(c.rows) = m /\ Len(c.batch_out) = m /\ Len(c.batch_in) = m
   /\ \A i \in 1..m : /\ Len(c.obs[i].order) = D /\ SetOf(c.obs[i].order) = Feat
                       /\ Len(c.obs[i].L) = D + 1 /\ Len(c.obs[i].preds) = D + 1
                       /\ Len(c.obs[i].outs) = D /\ Len(c.obs[i].ins) = D
                       /\ \A j \in 1..D : \A k \in 1..Len(c.obs[i].ins[j]) : Len(c.obs[i].ins[j][k]) = D
                       /\ Len(c.obs[i].x) = D
   /\ \A r \in 1..Len(c.background) : Len(c.background[r]) = D
ValuesKeyed(c) == { c.values[i][1] : i \in 1..Len(c.values) } = Feat

\* one recomputed explanation
ValueClauses(c) ==
   LET m == Len(c.obs)
       meanpred == T!MeanOutput([i \in 1..m |-> Dict(c.batch_out[i])])
       order(i) == c.obs[i].order
       L(i) == c.obs[i].L                      \* <<L_0, ..., L_D>>
       contribs == [i \in 1..m |-> S!SageContrib(order(i), L(i))]
       vals == Dict(c.values)
   IN /\ Ck("batch.rows_explained", \A i \in 1..m : c.obs[i].x = c.rows[i] /\ c.batch_in = c.rows)
      /\ Ck("batch.order_is_permutation", \A i \in 1..m : Len(order(i)) = D /\ SetOf(order(i)) = Feat)
      \* float means are exact (and their residues meaningful) only for dyadic sizes
      /\ Ck("batch.mean_prediction", c.exact_m => \A i \in 1..m : Dict(c.obs[i].preds[1]) = meanpred)
      /\ Ck("batch.chain_ends_at_model", c.exact_n => \A i \in 1..m : Dict(c.obs[i].preds[D + 1]) = Dict(c.batch_out[i]))
      /\ Ck("batch.mean_then_loss",
            c.exact_n => \A i \in 1..m : \A j \in 1..D :
               Len(c.obs[i].outs[j]) > 0 /\
               Dict(c.obs[i].preds[j + 1]) = T!MeanOutput([k \in 1..Len(c.obs[i].outs[j]) |-> Dict(c.obs[i].outs[j][k])]))
      /\ Ck("batch.inner_samples", \A i \in 1..m : \A j \in 1..D : Len(c.obs[i].outs[j]) = c.n)
      /\ Ck("batch.imputed_inputs",
            \A i \in 1..m : \A j \in 1..D : \A k \in 1..Len(c.obs[i].ins[j]) :
               LET notS == S!NotInS(Feat, order(i), j)  inp == c.obs[i].ins[j][k] IN
               /\ S!OutsideOK(c.obs[i].x, inp, notS)
               /\ (IF Tr.strategy = "product" THEN S!ProductOK(c.obs[i].x, inp, notS, c.background)
                   ELSE S!JointOK(c.obs[i].x, inp, notS, c.background)))
      /\ c.exact =>
           /\ Ck("batch.per_feature", \A f \in Feat : vals[f] = B!BatchValues(Feat, contribs)[f])
           /\ Ck("batch.efficiency",
                 B!SumValues(vals) = B!ExplainedLoss([i \in 1..m |-> L(i)[1]], [i \in 1..m |-> c.obs[i].lmodel]))
      /\ Ck("batch.model_loss_is_own_prediction", \A i \in 1..m : c.obs[i].lmodel_pred = c.batch_out[i])
Explained(c) == /\ Ck("batch.shape", ShapeOK(c))
                /\ Ck("batch.values_keyed_by_features", ValuesKeyed(c))
                \* features the model reads but the explainer is not asked to explain are in no coalition's complement:
                \* every model input of an observation's chain carries the observation's own value of them
                /\ Ck("batch.unexplained_features_untouched", c.hidden_ok)
                /\ (ShapeOK(c) /\ ValuesKeyed(c)) => ValueClauses(c)

Scheduled(c) == c.force \/ (c.seen_after % Tr.interval = 0)
IntervalCall(c) ==
   /\ Ck("interval.seen", c.seen_after = c.seen_before + 1)
   /\ Ck("interval.window", c.window = c.want_window)
   /\ Ck("interval.schedule", c.recomputed <=> (Scheduled(c) /\ Len(c.window) > 0))
   /\ Ck("interval.no_model_off_schedule", ~Scheduled(c) => (c.nmodel = 0 /\ c.nloss = 0))
   /\ Ck("interval.values_kept", ~c.recomputed => c.values = c.values_before)
   /\ Ck("interval.return_is_values", c.ret_ok)
   /\ c.recomputed => Explained(c)

Next == /\ l <= Len(Tr.calls)
        /\ LET c == Tr.calls[l] IN
           \* "err": the call raised although no fault was injected
           IF c.outcome # "ret" THEN Ck("fault.atomic", c.values = c.values_before) /\ Ck("batch.no_exception", c.outcome # "err" \/ Len(c.rows) = 0)
           ELSE IF Tr.cls = "interval" THEN IntervalCall(c)
           \* every BatchSage entry point computes an explanation of the data it was given (model and loss are evaluated)
           ELSE Ck("batch.return_is_values", c.ret_ok) /\ Ck("batch.explains", Len(c.rows) > 0 => (c.nmodel > 0 /\ c.nloss > 0)) /\ (c.recomputed => Explained(c))
        /\ l' = l + 1 /\ UNCHANGED tid
Spec == Init /\ [][Next]_vars
=================================================================================
