CONSTANTS D = 3
 NInner = 1
 M = 2
 Strategy = "product"
 Mode = "batch"
