CONSTANTS D = 2
 NInner = 1
 M = 3
 Strategy = "product"
 Mode = "batch"
