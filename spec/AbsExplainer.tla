---------------------------- MODULE AbsExplainer ----------------------------
(* IncrementalSage / IncrementalPFI with one explain_one call as ONE atomic step: the       *)
(* meaning a user has in mind (properties C01-C03, C15, C17 are statements about this       *)
(* level).  IncExplainer.tla - one action per callback, draw and commit point, with faults  *)
(* at every callback - is shown to implement this specification under the refinement        *)
(* mapping of Refine_IncExplainer.tla: a call that raises is a stuttering step of the       *)
(* estimates and the storage, a call that returns is exactly one Explain step.              *)
(*                                                                                          *)
(* The random outcome of a call (feature order p, background draws dr, reservoir choice c)  *)
(* is a parameter of the step; dr[j] is the sequence of draws of the j-th imputation, each  *)
(* draw a function from the imputed subset to row indices of the storage as it was when the *)
(* call began.                                                                              *)
EXTENDS Integers, Sequences, FiniteSets, FiniteSetsExt, SequencesExt, FieldQ, TLC
CONSTANTS Mode, D, NInner, Kind, Alpha, StoreKind, Cap, Strategy, NOver, ModelKind, AllowNoUpd, MaxCalls
T == INSTANCE Trackers WITH FAdd <- QAdd, FSub <- QSub, FMul <- QMul, FDiv <- QDiv, FInt <- QInt
S == INSTANCE ExplainerSteps WITH FAdd <- QAdd, FSub <- QSub, FMul <- QMul, FDiv <- QDiv, FInt <- QInt
St == INSTANCE Storages
Env == INSTANCE IncEnv
Feat == 1..D
Items == Env!Items
Model(x) == Env!Model(x)
Loss(y, p) == Env!Loss(y, p)

VARIABLES aseen,    \* number of calls that counted (returned; a failed call may or may not count)
          aest,     \* <<importance, variance, marginal loss, model loss, marginal prediction tracker, marginal prediction>>
          astore    \* the storage
avars == <<aseen, aest, astore>>
Est0 == <<T!MVInit, T!MVInit, T!TInit, T!TInit, T!MVInit, <<>>>>
AInit == aseen = 0 /\ aest = Est0 /\ astore = St!Empty

Rows == astore.sx
Perms == { q \in [1..D -> Feat] : \A a, b \in 1..D : a # b => q[a] # q[b] }
Identity == [j \in Feat |-> j]
Sub(p, j) == IF Mode = "sage" THEN S!NotInS(Feat, p, j) ELSE {p[j]}
DrawSets(sub) == IF Strategy = "joint" THEN { [f \in sub |-> r] : r \in 1..Len(Rows) }
                 ELSE IF Strategy = "product" THEN [sub -> 1..Len(Rows)]
                 ELSE { [f \in sub |-> 0] }
NDraws(n) == IF Strategy = "default" THEN 1 ELSE n
ValidDraws(p, n, dr) == /\ DOMAIN dr = 1..D
                        /\ \A j \in 1..D : dr[j] \in [1..NDraws(n) -> DrawSets(Sub(p, j))]
Imputed(x, sub, d) == [f \in Feat |-> IF f \in sub THEN (IF Strategy = "default" THEN Env!Defaults[f] ELSE Rows[d[f]][f])
                                      ELSE x[f]]
\* predictions of the j-th imputation: n evaluations (the DefaultImputer evaluates once and repeats the result)
PredsAt(x, p, j, drj, n) == [k \in 1..n |-> Model(Imputed(x, Sub(p, j), drj[IF Strategy = "default" THEN 1 ELSE k]))]

\* the estimates after explaining item it with n inner samples, order p and draws dr
Explained(it, n, p, dr) ==
   LET x == it[1]
       y == it[2]
       pred0 == Model(x)
       lm == Loss(y, pred0)
       mpN == T!MVUpd(Kind, Alpha, aest[5], pred0)
       L == [j \in 1..(D + 1) |-> IF j = 1 THEN Loss(y, T!MVNorm(mpN))
                                  ELSE Loss(y, T!MeanOutput(PredsAt(x, p, j - 1, dr[j - 1], n)))]
       groups == [f \in Feat |-> [k \in 1..n |-> Loss(y, PredsAt(x, p, f, dr[f], n)[k])]]
       c == IF Mode = "sage" THEN S!SageContrib(p, L) ELSE S!PfiContrib(groups, lm)
       imp2 == S!ImpUpd(Kind, Alpha, aest[1], c)
   IN IF Mode = "sage"
      THEN <<imp2, S!VarUpd(Kind, Alpha, aest[2], imp2, c), T!TUpdV(Kind, Alpha, aest[3], L[1]),
             T!TUpdV(Kind, Alpha, aest[4], lm), mpN, T!MVNorm(mpN)>>
      ELSE <<imp2, S!VarUpd(Kind, Alpha, aest[2], imp2, c), aest[3], aest[4], aest[5], aest[6]>>

\* explain_one(x, y, n_inner_samples = n, update_storage = u) returns
Explain(it, u, n, p, dr, c) ==
   /\ c \in (IF u THEN St!Choices(StoreKind, Cap, astore) ELSE {0})
   /\ IF aseen = 0 THEN aest' = aest                      \* the first observation only seeds the storage
      ELSE /\ Len(Rows) > 0 \/ Strategy = "default"
           /\ ValidDraws(p, n, dr)
           /\ aest' = Explained(it, n, p, dr)
   /\ astore' = IF u THEN St!Update(StoreKind, Cap, FALSE, astore, it, c) ELSE astore
   /\ aseen' = aseen + 1
\* explain_one raises (a callback failed, or the imputer found the storage empty): nothing but, possibly, the counter moves
Fail == aseen' \in {aseen, aseen + 1} /\ UNCHANGED <<aest, astore>>

Ns == {NInner} \cup (IF NOver > 0 THEN {NOver} ELSE {})
AllDraws(p, n) == LET cell(j) == [1..NDraws(n) -> DrawSets(Sub(p, j))]
                  IN { dr \in [1..D -> UNION { cell(j) : j \in 1..D }] : \A j \in 1..D : dr[j] \in cell(j) }
ANext == \/ \E it \in Items, u \in (IF AllowNoUpd THEN BOOLEAN ELSE {TRUE}), n \in Ns, c \in 0..Cap,
               p \in (IF Mode = "sage" THEN Perms ELSE {Identity}) :
               IF aseen = 0 THEN Explain(it, u, n, p, <<>>, c)
               ELSE \E dr \in AllDraws(p, n) : Explain(it, u, n, p, dr, c)
         \/ Fail
ASpec == AInit /\ [][ANext]_avars

(* ---- what holds at this level (checked on the atomic specification itself, MC_AbsExplainer) ---- *)
Bounded == aseen <= MaxCalls
SumImp == T!FSumFun(T!MVGet(aest[1]))
\* C01: the SAGE values sum to marginal loss - model loss, after every call whatever its outcome
AEfficiency == Mode = "sage" => SumImp = QSub(aest[3].val, aest[4].val)
\* all trackers have seen the same number of contributions; at most one call (the first) per counted call is not explained
ALockStep == /\ \A f \in DOMAIN aest[1].trk : aest[1].trk[f].n = aest[1].n /\ aest[2].trk[f].n = aest[1].n
             /\ aest[2].n = aest[1].n
             /\ Mode = "sage" => aest[3].n = aest[1].n /\ aest[4].n = aest[1].n /\ aest[5].n = aest[1].n
             /\ aseen >= 1 => aest[1].n <= aseen - 1
AVarNonNegative == \A f \in DOMAIN aest[2].trk : QLeq(QZero, aest[2].trk[f].val)
\* every feature has a value from the first explained observation on, and no other key ever appears
AKeys == DOMAIN aest[1].trk = (IF aest[1].n = 0 THEN {} ELSE Feat)
\* the storage never exceeds its capacity; sliding storages hold the newest items
AStoreBound == StoreKind # "batch" => Len(astore.sx) <= Cap
\* the marginal prediction is a normalised view: with several labels it sums to one
AMargPredNormalised == (Mode = "sage" /\ aest[1].n > 0 /\ Cardinality(DOMAIN aest[6]) > 1 /\ T!FSumFun(T!MVGet(aest[5])) # QZero)
                          => T!FSumFun(aest[6]) = QOne
\* estimates only change through explained calls: tracker counts never decrease
AMonotone == [][aest'[1].n >= aest[1].n /\ aseen' >= aseen]_avars
=============================================================================
