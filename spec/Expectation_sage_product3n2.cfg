CONSTANTS D = 3
 NInner = 2
 M = 2
 Strategy = "product"
 Mode = "sage"
