---------------------------- MODULE SWIndProof ----------------------------
(* TLAPS proof of the ring-buffer invariant of SWInd.tla for ANY window length K and any number of updates.      *)
(* base is a history variable: the number of values fed before the current lap around the buffer (n = base+pos). *)
EXTENDS Integers, TLAPS
CONSTANTS K
ASSUME KPos == K \in Nat /\ K >= 1
VARIABLES n, buf, pos, base
vars == <<n, buf, pos, base>>
Init == n = 0 /\ buf = [i \in 1..K |-> 0] /\ pos = 0 /\ base = 0
Update == /\ n' = n + 1
          /\ buf' = [buf EXCEPT ![pos + 1] = n + 1]
          /\ pos' = (pos + 1) % K
          /\ base' = IF pos + 1 = K THEN base + K ELSE base
Next == Update
Inv == /\ n \in Nat /\ pos \in 0..(K - 1) /\ base \in Nat /\ n = base + pos /\ (base = 0 \/ base >= K)
       /\ buf \in [1..K -> Int]
       /\ \A i \in 1..K : buf[i] = (IF i <= pos THEN base + i ELSE IF base >= K THEN base - K + i ELSE 0)
\* C11: the non-empty slots are exactly the last min(n, K) values fed, each once
WindowIsLastK == /\ \A i \in 1..K : buf[i] = 0 \/ (buf[i] > n - K /\ buf[i] <= n /\ buf[i] >= 1)
                 /\ \A t \in 1..n : t > n - K => \E i \in 1..K : buf[i] = t
                 /\ \A i, j \in 1..K : (i # j /\ buf[i] # 0) => buf[i] # buf[j]

LEMMA ModFacts == \A x \in 0..K : x % K = (IF x = K THEN 0 ELSE x)
  BY KPos

LEMMA InitInv == Init => Inv
  BY KPos DEF Init, Inv

LEMMA StepInv == Inv /\ [Next]_vars => Inv'
<1> SUFFICES ASSUME Inv, [Next]_vars PROVE Inv'
  OBVIOUS
<1>1. CASE UNCHANGED vars
  BY <1>1 DEF Inv, vars
<1>2. CASE Update
  <2>0. n \in Nat /\ pos \in 0..(K - 1) /\ base \in Nat /\ n = base + pos /\ buf \in [1..K -> Int] /\ (base = 0 \/ base >= K)
    BY DEF Inv
  <2>1. n' = n + 1 /\ buf' = [buf EXCEPT ![pos + 1] = n + 1] /\ pos' = (pos + 1) % K
        /\ base' = (IF pos + 1 = K THEN base + K ELSE base)
    BY <1>2 DEF Update
  <2>2. pos + 1 \in 0..K /\ pos' = (IF pos + 1 = K THEN 0 ELSE pos + 1)
    BY <2>0, <2>1, ModFacts, KPos
  <2>3. \A i \in 1..K : buf'[i] = (IF i = pos + 1 THEN n + 1 ELSE buf[i])
    BY <2>0, <2>1, KPos
  <2>4. buf' \in [1..K -> Int]
    BY <2>0, <2>1, KPos
  <2>5. CASE pos + 1 = K
    <3>1. pos' = 0 /\ base' = base + K /\ n' = base' + pos'
      BY <2>5, <2>0, <2>1, <2>2, KPos
    <3>2. \A i \in 1..K : buf'[i] = base' - K + i
      <4> TAKE i \in 1..K
      <4>0. buf[i] = (IF i <= pos THEN base + i ELSE IF base >= K THEN base - K + i ELSE 0)
        BY DEF Inv
      <4>1. CASE i = pos + 1
        BY <4>1, <2>5, <2>3, <2>0, <3>1, KPos
      <4>2. CASE i # pos + 1
        <5>1. i <= pos /\ buf'[i] = buf[i]
          BY <4>2, <2>5, <2>3, <2>0, KPos
        <5> QED BY <5>1, <4>0, <3>1, <2>0, KPos
      <4> QED BY <4>1, <4>2
    <3>3. n' \in Nat /\ pos' \in 0..(K - 1) /\ base' \in Nat /\ (base' = 0 \/ base' >= K)
      BY <3>1, <2>0, <2>1, KPos
    <3>4. \A i \in 1..K : buf'[i] = (IF i <= pos' THEN base' + i ELSE IF base' >= K THEN base' - K + i ELSE 0)
      <4> TAKE i \in 1..K
      <4>1. ~(i <= pos') /\ base' >= K
        BY <3>1, <2>0, KPos
      <4> QED BY <4>1, <3>2
    <3> QED BY <3>1, <3>3, <3>4, <2>4 DEF Inv
  <2>6. CASE pos + 1 < K
    <3>1. pos' = pos + 1 /\ base' = base /\ n' = base' + pos'
      BY <2>6, <2>0, <2>1, <2>2, KPos
    <3>2. \A i \in 1..K : buf'[i] = (IF i <= pos' THEN base' + i ELSE IF base' >= K THEN base' - K + i ELSE 0)
      <4> TAKE i \in 1..K
      <4>0. buf[i] = (IF i <= pos THEN base + i ELSE IF base >= K THEN base - K + i ELSE 0)
        BY DEF Inv
      <4>1. CASE i = pos + 1
        <5>1. buf'[i] = n + 1 /\ i <= pos' /\ n + 1 = base' + i
          BY <4>1, <2>3, <2>0, <3>1, KPos
        <5> QED BY <5>1
      <4>2. CASE i <= pos
        <5>1. buf'[i] = buf[i] /\ i <= pos' /\ buf[i] = base + i
          BY <4>2, <4>0, <2>3, <2>0, <3>1, KPos
        <5> QED BY <5>1, <3>1
      <4>3. CASE i > pos + 1
        <5>1. buf'[i] = buf[i] /\ ~(i <= pos') /\ ~(i <= pos)
          BY <4>3, <2>3, <2>0, <3>1, KPos
        <5> QED BY <5>1, <4>0, <3>1
      <4> QED BY <4>1, <4>2, <4>3, <2>0, KPos
    <3>3. n' \in Nat /\ pos' \in 0..(K - 1) /\ base' \in Nat /\ (base' = 0 \/ base' >= K)
      BY <3>1, <2>0, <2>1, <2>6, KPos
    <3> QED BY <3>1, <3>2, <3>3, <2>4 DEF Inv
  <2>7. pos + 1 = K \/ pos + 1 < K
    BY <2>0, KPos
  <2> QED BY <2>5, <2>6, <2>7
<1> QED BY <1>1, <1>2 DEF Next

LEMMA InvImplies == Inv => WindowIsLastK
<1> SUFFICES ASSUME Inv PROVE WindowIsLastK
  OBVIOUS
<1>0. n \in Nat /\ pos \in 0..(K - 1) /\ base \in Nat /\ n = base + pos /\ (base = 0 \/ base >= K)
      /\ \A i \in 1..K : buf[i] = (IF i <= pos THEN base + i ELSE IF base >= K THEN base - K + i ELSE 0)
  BY DEF Inv
<1>1. \A i \in 1..K : buf[i] = 0 \/ (buf[i] > n - K /\ buf[i] <= n /\ buf[i] >= 1)
  BY <1>0, KPos
<1>2. \A t \in 1..n : t > n - K => \E i \in 1..K : buf[i] = t
  <2> TAKE t \in 1..n
  <2> HAVE t > n - K
  <2>1. CASE t > base
    <3>1. t - base \in 1..K /\ t - base <= pos
      BY <2>1, <1>0, KPos
    <3> QED BY <3>1, <1>0
  <2>2. CASE t <= base
    <3>0. t \in Nat /\ t >= 1 /\ t > base + pos - K
      BY <1>0, KPos
    <3>1. base >= K
      BY <2>2, <3>0, <1>0, KPos
    <3>2. t - base + K \in 1..K /\ t - base + K > pos
      BY <2>2, <3>0, <3>1, <1>0, KPos
    <3>3. buf[t - base + K] = base - K + (t - base + K)
      BY <3>1, <3>2, <1>0
    <3>4. buf[t - base + K] = t
      BY <3>3, <3>0, <1>0, KPos
    <3> QED BY <3>2, <3>4
  <2> QED BY <2>1, <2>2, <1>0
<1>3. \A i, j \in 1..K : (i # j /\ buf[i] # 0) => buf[i] # buf[j]
  BY <1>0, KPos
<1> QED BY <1>1, <1>2, <1>3 DEF WindowIsLastK

THEOREM Safe == Init /\ [][Next]_vars => []WindowIsLastK
<1>1. Init /\ [][Next]_vars => []Inv
  BY InitInv, StepInv, PTL
<1> QED BY <1>1, InvImplies, PTL
===========================================================================
