SPECIFICATION Spec
CONSTANTS Keys = {"a","b","c"}
 MaxCalls = 3
INVARIANT PerKeySinceFirst
INVARIANT NCountsCalls
INVARIANT KeysAreAllSeen
INVARIANT NormSumsToOne
INVARIANT NormKeepsRatios
INVARIANT NormZeroSumAllZero
INVARIANT NormSingleKeyRaw
PROPERTY KeysMonotone
CHECK_DEADLOCK FALSE
