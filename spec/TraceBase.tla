---------------------------- MODULE TraceBase ----------------------------
(* Shared plumbing of the trace specifications (direction B: code -> spec).            *)
(* A batch of traces recorded from the implementation is read from IOEnv.TRACE_FILE;    *)
(* the TLC state is just <<tid, l>> (trace id, position): every recorded transition is   *)
(* checked from its own *logged* pre-state by the pure step functions of the            *)
(* specification, so one divergence neither stops validation nor poisons later steps.   *)
(* A clause that does not hold prints <<"FAIL", clause, tid, l>> and validation goes on. *)
EXTENDS Integers, Sequences, FiniteSets, TLC, Json, IOUtils
Traces == JsonDeserialize(IOEnv.TRACE_FILE)
\* [[k, v], ...] -> function k -> v
PairsToFun(s) == [k \in { s[i][1] : i \in 1..Len(s) } |->
                    LET i == CHOOSE j \in 1..Len(s) : s[j][1] = k IN s[i][2]]
Check(name, tid, l, ok) == IF ok THEN TRUE ELSE PrintT(<<"FAIL", name, tid, l>>)
===========================================================================
