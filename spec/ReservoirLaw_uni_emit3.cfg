SPECIFICATION Spec
CONSTANTS K = 3
 MaxN = 7
 Law = "uniform"
INVARIANT Emit
CHECK_DEADLOCK FALSE
