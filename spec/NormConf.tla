---------------------------- MODULE NormConf ----------------------------
(* C16: normalised importance values and confidence bounds, as a case enumeration in       *)
(* exact rationals.  Every TLC state is one importance dictionary x mode (or one            *)
(* (variance, alpha, delta, t) case); each becomes one implementation test per numeric type. *)
EXTENDS Integers, Sequences, FiniteSets, FiniteSetsExt, FieldQ, TLC, Json
CONSTANTS MaxKeys
Vals == -2..2
VARIABLES kind, vals, mode, bcase
vars == <<kind, vals, mode, bcase>>
Alphas == {<<1, 2>>, <<1, 10>>, <<1, 1>>, <<1, 100>>}
Deltas == {<<1, 1000>>, <<1, 100>>, <<1, 10>>, <<1, 2>>, <<1, 1>>}
Vars == {<<0, 1>>, <<1, 4>>, <<2, 1>>, <<9, 1>>}
Init == \/ /\ kind = "norm" /\ \E k \in 1..MaxKeys : vals \in [1..k -> Vals]
           /\ mode \in {"sum", "delta"} /\ bcase = <<>>
        \/ /\ kind = "bound" /\ vals = <<>> /\ mode = "none"
           /\ bcase \in [var : Vars, alpha : Alphas, t : {0, 1, 3}]
Next == FALSE /\ UNCHANGED vars
Spec == Init /\ [][Next]_vars

Q(i) == QInt(i)
SumV == FoldSet(LAMBDA k, acc : vals[k] + acc, 0, DOMAIN vals)
MaxV == CHOOSE m \in {vals[k] : k \in DOMAIN vals} : \A k \in DOMAIN vals : vals[k] <= m
MinV == CHOOSE m \in {vals[k] : k \in DOMAIN vals} : \A k \in DOMAIN vals : vals[k] >= m
Factor == IF mode = "sum" THEN SumV ELSE MaxV - MinV
\* _normalize_importance_values: divide by the factor; all zeros when the factor is zero
Normalised == [k \in DOMAIN vals |-> IF Factor = 0 THEN QZero ELSE QDiv(Q(vals[k]), Q(Factor))]
IsNorm == kind = "norm"
RatiosKept == (IsNorm /\ Factor # 0) => \A k \in DOMAIN vals : QMul(Normalised[k], Q(Factor)) = Q(vals[k])
SumIsOne == (IsNorm /\ mode = "sum" /\ Factor # 0) =>
               FoldSet(LAMBDA k, acc : QAdd(Normalised[k], acc), QZero, DOMAIN vals) = QOne
RangeIsOne == (IsNorm /\ mode = "delta" /\ Factor # 0) =>
               \E a, b \in DOMAIN vals : /\ QSub(Normalised[a], Normalised[b]) = QOne
                                         /\ \A k \in DOMAIN vals : QLeq(Normalised[b], Normalised[k]) /\ QLeq(Normalised[k], Normalised[a])
ZeroFallbackAllZero == (IsNorm /\ Factor = 0) => \A k \in DOMAIN vals : Normalised[k] = QZero
\* confidence bound: (1 - alpha)^t + sqrt(BoundSq(delta)),  BoundSq = variance * alpha / ((2 - alpha) * delta)
BoundSq(b, delta) == QDiv(QMul(b.var, b.alpha), QMul(QSub(Q(2), b.alpha), delta))
Decay(b) == QPow(QSub(QOne, b.alpha), b.t)
BoundWellFormed == kind = "bound" =>
      /\ \A dl \in Deltas : QLeq(QZero, BoundSq(bcase, dl))
      /\ \A d1, d2 \in Deltas : QLeq(d1, d2) => QLeq(BoundSq(bcase, d2), BoundSq(bcase, d1))    \* non-increasing in delta
      /\ QLeq(QZero, Decay(bcase)) /\ QLeq(Decay(bcase), QOne)
Emit == PrintT(ToJson(IF kind = "norm"
                      THEN [kind |-> kind, vals |-> vals, mode |-> mode, factor |-> Factor, norm |-> Normalised]
                      ELSE [kind |-> kind, b |-> bcase, decay |-> Decay(bcase),
                            sq |-> [i \in 1..5 |-> LET dl == CHOOSE x \in Deltas : Cardinality({y \in Deltas : QLt(y, x)}) = i - 1
                                                   IN <<dl, BoundSq(bcase, dl)>>]]))
==========================================================================
