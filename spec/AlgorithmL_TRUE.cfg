SPECIFICATION Spec
CONSTANTS K = 2
 MaxN = 7
 StaleW = TRUE
INVARIANT SkipUsesCurrentWeight
PROPERTY AcceptOnlyAtNext
CHECK_DEADLOCK FALSE
