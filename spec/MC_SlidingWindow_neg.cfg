SPECIFICATION Spec
CONSTANTS MaxK = 5
 WrapBug = TRUE
INVARIANT WindowIsLastK
CHECK_DEADLOCK FALSE
