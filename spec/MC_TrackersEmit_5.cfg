SPECIFICATION Spec
CONSTANTS MaxLen = 5
INVARIANT Emit
CHECK_DEADLOCK FALSE
