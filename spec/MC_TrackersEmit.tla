---------------------------- MODULE MC_TrackersEmit ----------------------------
(* Behaviour export for direction A (spec -> code): every reachable state (= every stream *)
(* prefix) is printed with the specification's tracker states.                            *)
EXTENDS MC_Trackers, Json
Emit == PrintT(ToJson([h |-> hist, a |-> alpha, w |-> w, e |-> e, wvar |-> T!WVar(w)]))
=================================================================================
