CONSTANTS D = 3
 NInner = 2
 M = 3
 Strategy = "joint"
 Mode = "pfi"
