---------------------------- MODULE AlgorithmL ----------------------------
(* C08: control structure of UniformReservoirStorage (Algorithm L).  The continuous weight *)
(* W cannot be carried by TLC; what is modelled is *which version* of W every quantity was   *)
(* computed from: the weight is refreshed after every acceptance (wver) and the gap to the   *)
(* next accepted arrival must be drawn from the refreshed weight (gapver = wver).            *)
(* StaleW = TRUE is the order the code had before the repair: the gap is drawn before the    *)
(* weight is updated - the negative control TLC must refute.  (The law that Algorithm L has  *)
(* to realise is ReservoirLaw with Law = "uniform".)                                         *)
EXTENDS Integers, Sequences, TLC
St == INSTANCE Storages
CONSTANTS K, MaxN, StaleW
VARIABLES n, res, next, wver, gapver
vars == <<n, res, next, wver, gapver>>
\* __init__: W drawn (version 1), first gap drawn from it
Init == n = 0 /\ res = St!Empty /\ wver = 1 /\ gapver = 1 /\ next \in (K + 1)..(K + 3)
Fill == /\ n < K /\ n' = n + 1 /\ res' = St!Update("uniform", K, FALSE, res, <<n + 1, 0>>, 0)
        /\ UNCHANGED <<next, wver, gapver>>
Skip == /\ n >= K /\ n + 1 # next /\ n < MaxN /\ n' = n + 1
        /\ UNCHANGED <<res, next, wver, gapver>>
Accept(slot, gap) ==
        /\ n >= K /\ n + 1 = next /\ n < MaxN /\ n' = n + 1
        /\ res' = St!Update("uniform", K, FALSE, res, <<n + 1, 0>>, slot)
        /\ wver' = wver + 1
        /\ gapver' = IF StaleW THEN wver ELSE wver + 1      \* version of W the new gap was drawn from
        /\ next' = next + gap
Next == Fill \/ Skip \/ \E s \in 1..K, g \in 1..3 : Accept(s, g)
Spec == Init /\ [][Next]_vars
SkipUsesCurrentWeight == gapver = wver
AcceptOnlyAtNext == [][(res' # res /\ n >= K) => n + 1 = next]_vars
============================================================================
