---------------------------- MODULE MC_SWInd ----------------------------
EXTENDS SWInd, Apalache
CInitOK == K \in 1..6 /\ WrapBug = FALSE
CInitBug == K \in 2..6 /\ WrapBug = TRUE
\* the negative control needs pos = K to be reachable, which the buggy step itself produces: its "invariant" is weaker
IndInit == /\ n \in Nat /\ pos \in 0..6
           /\ buf = Gen(6)
           /\ IndInv
=========================================================================
