SPECIFICATION Spec
CONSTANTS MaxD = 3
 MaxRows = 3
 MaxN = 2
INVARIANT Emit
CHECK_DEADLOCK FALSE
