---------------------------- MODULE MetricLoss ----------------------------
(* C13: a river metric wrapped as a loss (RiverMetricToLossFunction, validate_loss_function). *)
(* The shared metric object is abstracted to the bag of (y_true, y_pred) pairs it currently    *)
(* accounts for; one loss evaluation is  update . get . revert ; any number of wrapper objects  *)
(* (explainers) share the metric.  NoRevert = TRUE is the negative control.                     *)
EXTENDS Integers, Sequences, FiniteSets, Bags, TLC, Json
CONSTANTS Pairs, Wrappers, MaxCalls, NoRevert
VARIABLES bag, pc, cur, ret, hist
vars == <<bag, pc, cur, ret, hist>>
Init == bag = EmptyBag /\ pc = "probe_update" /\ cur = <<>> /\ ret = <<>> /\ hist = <<>>
\* validate_loss_function probes the metric with (0, 0) and reverts the probe
ProbeUpdate == pc = "probe_update" /\ bag' = bag (+) SetToBag({"probe"}) /\ pc' = "probe_revert" /\ UNCHANGED <<cur, ret, hist>>
ProbeRevert == pc = "probe_revert" /\ bag' = bag (-) SetToBag({"probe"}) /\ pc' = "idle" /\ UNCHANGED <<cur, ret, hist>>
Begin(w, p) == /\ pc = "idle" /\ Len(hist) < MaxCalls /\ cur' = <<w, p>> /\ pc' = "update" /\ UNCHANGED <<bag, ret, hist>>
Update == pc = "update" /\ bag' = bag (+) SetToBag({cur[2]}) /\ pc' = "get" /\ UNCHANGED <<cur, ret, hist>>
Get == pc = "get" /\ ret' = bag /\ pc' = "revert" /\ UNCHANGED <<bag, cur, hist>>
Revert == /\ pc = "revert"
          /\ bag' = IF NoRevert THEN bag ELSE bag (-) SetToBag({cur[2]})
          /\ pc' = "idle" /\ hist' = Append(hist, [w |-> cur[1], p |-> cur[2], value_of |-> ret]) /\ UNCHANGED <<cur, ret>>
Next == ProbeUpdate \/ ProbeRevert \/ (\E w \in Wrappers, p \in Pairs : Begin(w, p)) \/ Update \/ Get \/ Revert
Spec == Init /\ [][Next]_vars
\* between calls the metric accounts for nothing: its own reported value is unchanged
BagUnchanged == pc = "idle" => bag = EmptyBag
\* every returned value is the metric's value on exactly the single pair of that call
ValueIsSingle == \A i \in 1..Len(hist) : hist[i].value_of = SetToBag({hist[i].p})
Emit == (pc = "idle" /\ Len(hist) = MaxCalls) => PrintT(ToJson([h |-> [i \in 1..Len(hist) |-> <<hist[i].w, hist[i].p>>]]))
============================================================================
