---------------------------- MODULE Refine_IncExplainer ----------------------------
(* Refinement: the micro-step specification of explain_one (IncExplainer.tla: callbacks,     *)
(* draws, storage update, commit and return as separate steps, faults at every callback)     *)
(* implements the atomic specification AbsExplainer.tla.                                     *)
(*                                                                                           *)
(* Refinement mapping: while a call is running the abstract state is the state the call      *)
(* began in (snap for the estimates, the history variable store0 for the storage); when the  *)
(* call returns or raises the abstract state becomes the current one.  Hence every step of   *)
(* a running call is a stuttering step, Return is one Explain step - with the order, draws   *)
(* and reservoir choice the call actually made as witnesses - and a Fault is a Fail step.    *)
(* With CommitEarly = TRUE (the commit order the code had before the C17 repair) the         *)
(* refinement fails: negative control.                                                       *)
EXTENDS MC_IncExplainer
VARIABLE store0
RInit == Init /\ store0 = St!Empty
RNext == Next /\ store0' = (IF pc = "idle" THEN store ELSE store0)
RSpec == RInit /\ [][RNext]_<<vars, store0>>

Running == outcome = "running"
AX == INSTANCE AbsExplainer WITH aseen <- seen,
                                 aest <- IF Running THEN snap ELSE est,
                                 astore <- IF Running THEN store0 ELSE store
\* the witnesses are taken from the locals of the call that just ended
Witnessed == \/ AX!Explain(cur, upd, ncur, IF Mode = "pfi" THEN AX!Identity ELSE order, rows, schoice)
             \/ AX!Fail
Ends == Running /\ ~Running'                 \* the step in which a call returns or raises
Refines == [][IF Ends THEN Witnessed ELSE UNCHANGED AX!avars]_<<vars, store0>>
RefinesInit == AX!AInit
\* the existential form: IncExplainer => AbsExplainer (TLC enumerates orders and draws; small configurations only)
AbsSpec == AX!ASpec
=====================================================================================
