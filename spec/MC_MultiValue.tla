---------------------------- MODULE MC_MultiValue ----------------------------
(* C12: MultiValueTracker under every sequence of update dictionaries with changing key *)
(* sets, both base trackers.                                                             *)
EXTENDS Integers, Sequences, FiniteSets, FieldQ, TLC, Json
T == INSTANCE Trackers WITH FAdd <- QAdd, FSub <- QSub, FMul <- QMul, FDiv <- QDiv, FInt <- QInt
CONSTANTS Keys, MaxCalls
Vals == {-1, 0, 2}
Alpha == <<2, 5>>
VARIABLES kind, m, since, upds
vars == <<kind, m, since, upds>>
\* an update dictionary: a function from a subset of Keys to values
Updates == UNION { [S -> Vals] : S \in SUBSET Keys }
Init == kind \in {"welford", "es"} /\ m = T!MVInit /\ since = <<>> /\ upds = <<>>
Next == /\ Len(upds) < MaxCalls
        /\ \E u \in Updates :
             LET uq == [k \in DOMAIN u |-> QInt(u[k])] IN
             /\ m' = T!MVUpd(kind, Alpha, m, uq)
             \* declarative history: values supplied for a key since it first appeared, 0 when omitted
             /\ since' = [k \in (DOMAIN since) \cup (DOMAIN u) |->
                            IF k \in DOMAIN since
                            THEN Append(since[k], IF k \in DOMAIN u THEN uq[k] ELSE QZero)
                            ELSE <<uq[k]>>]
             /\ upds' = Append(upds, u)
        /\ UNCHANGED kind
Spec == Init /\ [][Next]_vars

Mean(h) == QDiv(T!FSumSeq(h), QInt(Len(h)))
ESForm(h, a) == T!FSumSeq([i \in 1..Len(h) |-> QMul(QMul(a, QPow(QSub(QOne, a), Len(h) - i)), h[i])])
BaseStat(h) == IF kind = "es" THEN ESForm(h, Alpha) ELSE Mean(h)
PerKeySinceFirst == /\ DOMAIN m.trk = DOMAIN since
                    /\ \A k \in DOMAIN since : /\ m.trk[k].val = BaseStat(since[k])
                                               /\ m.trk[k].n = Len(since[k])
NCountsCalls == m.n = Len(upds)
KeysAreAllSeen == DOMAIN m.trk = UNION { DOMAIN upds[i] : i \in 1..Len(upds) }
KeysMonotone == [][DOMAIN m.trk \subseteq DOMAIN m'.trk]_vars
vals == T!MVGet(m)
norm == T!MVNorm(m)
total == T!FSumFun(vals)
NormSumsToOne == (Cardinality(DOMAIN vals) > 1 /\ total # QZero) => T!FSumFun(norm) = QOne
NormKeepsRatios == (Cardinality(DOMAIN vals) > 1 /\ total # QZero) =>
                      \A k \in DOMAIN vals : QMul(norm[k], total) = vals[k]
NormZeroSumAllZero == (Cardinality(DOMAIN vals) > 1 /\ total = QZero) => \A k \in DOMAIN vals : norm[k] = QZero
NormSingleKeyRaw == Cardinality(DOMAIN vals) <= 1 => norm = vals
Emit == PrintT(ToJson([kind |-> kind, upds |-> [i \in 1..Len(upds) |-> [k \in DOMAIN upds[i] |-> upds[i][k]]],
                       get |-> vals, norm |-> norm, n |-> m.n,
                       since |-> [k \in DOMAIN since |-> [i \in 1..Len(since[k]) |-> since[k][i][1]]]]))
===============================================================================
