---------------------------- MODULE Trackers ----------------------------
(* Pure step functions of the running-statistic trackers, written against an       *)
(* abstract field (instantiated with exact rationals for model checking and with     *)
(* GF(p) for validating traces of the implementation).                               *)
(*   ixai/utils/tracker/welford.py, exponential_smoothing.py, multi_value.py,        *)
(*   sliding_window.py                                                               *)
EXTENDS Integers, Sequences, FiniteSets, FiniteSetsExt, SequencesExt
CONSTANTS FAdd(_,_), FSub(_,_), FMul(_,_), FDiv(_,_), FInt(_)

F0 == FInt(0)
F1 == FInt(1)
FSq(a) == FMul(a, a)
FSumSeq(s) == FoldSeq(LAMBDA x, acc : FAdd(x, acc), F0, s)
FSumFun(f) == FoldSet(LAMBDA k, acc : FAdd(f[k], acc), F0, DOMAIN f)

(* ---- base trackers: record [n, val, ss]; kind \in {"welford", "es"} ---- *)
TInit == [n |-> 0, val |-> F0, ss |-> F0]

\* WelfordTracker.update: N += 1; d1 = v - mean; mean += d1 / N; d2 = v - mean; ss += d1 * d2
WUpd(t, v) == LET n1 == t.n + 1
                  d1 == FSub(v, t.val)
                  m1 == FAdd(t.val, FDiv(d1, FInt(n1)))
                  d2 == FSub(v, m1)
              IN [n |-> n1, val |-> m1, ss |-> FAdd(t.ss, FMul(d1, d2))]
\* WelfordTracker.var = sum_squares / max(N, 1)
WVar(t) == FDiv(t.ss, FInt(IF t.n > 1 THEN t.n ELSE 1))

\* ExponentialSmoothingTracker.update: val = (1 - alpha) * val + alpha * v; N += 1
EUpd(t, v, a) == [n |-> t.n + 1, val |-> FAdd(FMul(FSub(F1, a), t.val), FMul(a, v)), ss |-> t.ss]

TUpd(kind, a, t, v) == IF kind = "es" THEN EUpd(t, v, a) ELSE WUpd(t, v)
\* value / count part of the update only: where a tracker is observed through get() alone (inside a
\* MultiValueTracker, or as loss tracker of an explainer) the Welford sum of squares is not part of the
\* abstract state (and its 4th-power magnitudes would not fit TLC's integers)
TUpdV(kind, a, t, v) == IF kind = "es" THEN EUpd(t, v, a)
                        ELSE [n |-> t.n + 1, val |-> FAdd(t.val, FDiv(FSub(v, t.val), FInt(t.n + 1))), ss |-> t.ss]

(* ---- MultiValueTracker: [trk : key -> tracker record, n] ---- *)
MVInit == [trk |-> <<>>, n |-> 0]
\* update(values): tracked keys in the update get their value, tracked keys missing from it
\* get 0, new keys start a fresh copy of the base tracker with their value
MVUpd(kind, a, m, upd) ==
   [trk |-> [k \in (DOMAIN m.trk) \cup (DOMAIN upd) |->
               TUpdV(kind, a, IF k \in DOMAIN m.trk THEN m.trk[k] ELSE TInit,
                             IF k \in DOMAIN upd THEN upd[k] ELSE F0)],
    n |-> m.n + 1]
MVGet(m) == [k \in DOMAIN m.trk |-> m.trk[k].val]
\* get_normalized(): raw values for <= 1 key; all zeros for a zero sum; value / sum otherwise
NormVals(vals) == LET s == FSumFun(vals)
                  IN IF Cardinality(DOMAIN vals) <= 1 THEN vals
                     ELSE IF s = F0 THEN [k \in DOMAIN vals |-> F0]
                     ELSE [k \in DOMAIN vals |-> FDiv(vals[k], s)]
MVNorm(m) == NormVals(MVGet(m))

(* ---- mean of a list of dict model outputs (explainer/base.py:_get_mean_model_output):      *)
(* labels = union of all keys, a missing label counts as 0, divide by the number of outputs   *)
MeanOutput(outs) ==
   LET labs == UNION { DOMAIN outs[i] : i \in 1..Len(outs) }
   IN [k \in labs |-> FDiv(FoldSeq(LAMBDA o, acc : FAdd(IF k \in DOMAIN o THEN o[k] ELSE F0, acc), F0, outs),
                           FInt(Len(outs)))]

(* ---- SlidingWindowTracker(k): ring buffer + next write position.  A slot is <<>> (the   *)
(* NaN placeholder of the implementation) or <<v>>.                                       *)
SWInit(k) == [buf |-> [i \in 1..k |-> <<>>], pos |-> 0, k |-> k]
\* intended behaviour: write at pos, advance modulo k
SWUpd(s, v) == [s EXCEPT !.buf[s.pos + 1] = <<v>>, !.pos = (s.pos + 1) % s.k]
\* the shipped code before the fix (negative control): on wrap it resets the index to 0,
\* writes there, and does *not* advance
SWUpdWrapBug(s, v) == IF s.pos < s.k THEN [s EXCEPT !.buf[s.pos + 1] = <<v>>, !.pos = s.pos + 1]
                      ELSE [s EXCEPT !.buf[1] = <<v>>, !.pos = 0]
SWContent(s) == LET full == SelectSeq(s.buf, LAMBDA x : x # <<>>)
                IN [i \in 1..Len(full) |-> full[i][1]]
=========================================================================
