CONSTANTS D = 3
 NInner = 1
 M = 3
 Strategy = "joint"
 Mode = "sage"
