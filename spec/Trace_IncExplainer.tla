---------------------------- MODULE Trace_IncExplainer ----------------------------
(* Direction B for C01, C02, C03, C06, C15, C17 (and the draw clauses of C04 / C18):      *)
(* every explain_one call recorded from the real IncrementalSage / IncrementalPFI is       *)
(* checked, from its logged pre-state, against the step functions of the specification.    *)
(* Numbers are GF(P) residues of the exact (Fraction) values.  Clause names carry the      *)
(* layer they belong to; the harness maps clause prefixes to properties (Appendix A).      *)
EXTENDS TraceBase, FieldP, FiniteSetsExt, SequencesExt
T == INSTANCE Trackers WITH FAdd <- PAdd, FSub <- PSub, FMul <- PMul, FDiv <- PDiv, FInt <- PInt
S == INSTANCE ExplainerSteps WITH FAdd <- PAdd, FSub <- PSub, FMul <- PMul, FDiv <- PDiv, FInt <- PInt
VARIABLES tid, l
vars == <<tid, l>>
Init == tid \in 1..Len(Traces) /\ l = 1
Tr == Traces[tid]
D == Tr.d
Feat == 1..D
Ck(name, ok) == Check(name, tid, l, ok)

Rec(j) == [n |-> j[1], val |-> j[2], ss |-> j[3]]
MVRec(js, n) == [trk |-> [k \in { js[i][1] : i \in 1..Len(js) } |->
                            LET i == CHOOSE q \in 1..Len(js) : js[q][1] = k IN Rec(js[i][2])],
                 n |-> n]
\* trackers are compared on what the properties talk about: value and update count
SameMV(a, b) == /\ DOMAIN a.trk = DOMAIN b.trk
                /\ \A k \in DOMAIN a.trk : a.trk[k].val = b.trk[k].val /\ a.trk[k].n = b.trk[k].n
SameT(a, b) == a.val = b.val /\ a.n = b.n
Dict(js) == PairsToFun(js)
SumF(f) == FoldSet(LAMBDA k, acc : PAdd(f[k], acc), 0, DOMAIN f)
SetOf(s) == { s[i] : i \in 1..Len(s) }

Estimates(st) == <<st.imp, st.var, st.ml, st.mo, st.mp, st.margpred>>

(* ---- C01: efficiency, a pure monitor of the logged state *)
Efficiency(st) == LET imp == MVRec(st.imp, st.impn)
                  IN SumF([k \in DOMAIN imp.trk |-> imp.trk[k].val]) = PSub(st.ml[2], st.mo[2])

(* ---- contract clauses (C15) shared by both explainers *)
Contract(c) ==
   LET o == c.order IN
   /\ Ck("contract.seen", c.post.seen = c.pre.seen + 1)
   /\ Ck("contract.store_once_after",
         IF c.upd THEN /\ Len(c.stores) = 1
                       /\ c.stores[1].x_is_arg /\ c.stores[1].y_is_arg
                       \* no model / loss / imputer activity after the storage update
                       /\ \A i \in 1..Len(o) : (o[i] \in {"m", "l", "i"}) => i < c.stores[1].pos
         ELSE Len(c.stores) = 0)
   /\ Ck("contract.no_self_background", ~c.self_in_bg)
   /\ Ck("contract.return_is_property", c.ret_is_prop)
   /\ Ck("contract.keys", c.ret_keys_ok)
   /\ Ck("contract.args_unmodified", c.args_unmod)

FirstCall(c) ==
   /\ Ck("first.no_callbacks", Len(c.models) = 0 /\ Len(c.losses) = 0 /\ Len(c.imputes) = 0)
   /\ Ck("first.estimates_untouched", Estimates(c.post) = Estimates(c.pre))
   /\ Ck("first.no_draws", Len(c.perms) = 0 /\ Len(c.draws) = 0)
   /\ Contract(c)

(* ---- imputer clauses (C06) on the model inputs of impute call j with subset sub *)
ImputeClauses(c, j, sub) ==
   LET ms == SelectSeq(c.models, LAMBDA m : m.imp = j)
       x == c.x
   IN /\ Ck("impute.count", c.imputes[j].count = c.imputes[j].n
                            /\ Len(ms) = (IF Tr.onemodel THEN 1 ELSE c.imputes[j].n))
      /\ \A i \in 1..Len(ms) :
            /\ Ck("impute.outside", S!OutsideOK(x, ms[i].x, sub))
            /\ Ck("impute.inside_background",
                  CASE Tr.strategy = "joint" -> S!JointOK(x, ms[i].x, sub, c.rows)
                    [] Tr.strategy = "product" -> S!ProductOK(x, ms[i].x, sub, c.rows)
                    [] OTHER -> \A f \in sub : ms[i].x[f] = Tr.defaults[f])
            /\ Ck("impute.no_extra_keys", Len(ms[i].extra_keys) = 0)
      \* C04 / C18: background rows are explained by logged uniform draws over the *whole* storage
      /\ Ck("draw.row_range",
            (Tr.strategy \in {"joint", "product"} /\ Len(c.rows) > 0) =>
               \A q \in 1..Len(c.draws) : c.draws[q][2] = Len(c.rows))
      /\ Ck("draw.used_row",
            (Tr.strategy = "joint" /\ Tr.defimp /\ Len(c.draws) = Len(SelectSeq(c.models, LAMBDA m : m.imp > 0))) =>
               \A i \in 1..Len(ms) :
                  LET before == Len(SelectSeq(c.models, LAMBDA m : m.imp > 0 /\ m.imp < j)) IN
                  LET idx == c.draws[before + i][3] + 1 IN
                  idx \in 1..Len(c.rows) /\ \A f \in sub : ms[i].x[f] = c.rows[idx][f])
      /\ Ck("impute.no_mutation", c.imputes[j].subset_unmodified /\ c.imputes[j].x_is_arg)
      /\ Ck("impute.empty_subset_is_identity",
            sub = {} => \A i \in 1..Len(ms) : ms[i].x = x)

(* ---- IncrementalSage, an explained call *)
SageCall(c) ==
   LET kind == Tr.kind  a == Tr.alpha  n == c.n
       NL == Len(c.losses)  NI == Len(c.imputes)
       grp(j) == SelectSeq(c.losses, LAMBDA e : e.ai = j)
       \* exactly one loss evaluation per coalition: the loss *of the mean* prediction
       oneLoss == NI = D /\ Len(grp(0)) = 2 /\ \A j \in 1..D : Len(grp(j)) = 1
       valueShape == /\ NL = D + 2 /\ NI = D /\ Len(c.models) >= 1
                     /\ c.losses[1].ai = 0 /\ c.losses[2].ai = 0
                     /\ \A j \in 1..D : c.losses[2 + j].ai = j
                     /\ \A j \in 1..D : c.imputes[j].m1 > c.imputes[j].m0
                     /\ c.models[1].imp = 0
       sub(j) == IF j = 0 THEN Feat ELSE SetOf(c.imputes[j].subset)
       chainOK == /\ \A j \in 1..D : sub(j) \subseteq sub(j - 1) /\ Cardinality(sub(j - 1) \ sub(j)) = 1
                  /\ sub(D) = {}
       order == [j \in 1..D |-> CHOOSE f \in sub(j - 1) \ sub(j) : TRUE]
       L == [j \in 1..(D + 1) |-> c.losses[1 + j].val]          \* L[1] = L_0 ... L[D+1] = L_D
       Lm == c.losses[1].val
       pred0 == Dict(c.models[1].out)
       contrib == S!SageContrib(order, L)
       imp2 == S!ImpUpd(kind, a, MVRec(c.pre.imp, c.pre.impn), contrib)
       var2 == S!VarUpd(kind, a, MVRec(c.pre.var, c.pre.varn), imp2, contrib)
       ml2 == T!TUpdV(kind, a, Rec(c.pre.ml), L[1])
       mo2 == T!TUpdV(kind, a, Rec(c.pre.mo), Lm)
       mp2 == T!MVUpd(kind, a, MVRec(c.pre.mp, c.pre.mpn), pred0)
       outs(j) == LET ms == SelectSeq(c.models, LAMBDA m : m.imp = j) IN [i \in 1..Len(ms) |-> Dict(ms[i].out)]
   IN /\ Ck("contract.model_calls", Len(c.models) = 1 + D * (IF Tr.onemodel THEN 1 ELSE n))
      /\ Ck("contract.loss_calls", NL = D + 2)
      /\ Ck("contract.impute_calls", NI = D /\ \A j \in 1..NI : c.imputes[j].n = n)
      /\ Contract(c)
      /\ Ck("sage.one_loss_per_coalition", oneLoss)
      /\ IF ~valueShape THEN PrintT(<<"SKIP", "sage.values", tid, l>>)
         ELSE /\ Ck("sage.subset_complement", chainOK)
              /\ IF ~chainOK THEN TRUE
                 ELSE /\ Ck("sage.importance", SameMV(imp2, MVRec(c.post.imp, c.post.impn)))
                      /\ Ck("sage.variance", SameMV(var2, MVRec(c.post.var, c.post.varn)))
                      /\ Ck("draw.order_is_drawn_perm",
                            Len(c.perms) >= 1 => \E q \in 1..Len(c.perms) :
                                  Len(c.perms[q]) = D /\ \A j \in 1..D : c.perms[q][j] = order[j])
                      /\ \A j \in 1..D : ImputeClauses(c, j, sub(j))
              /\ Ck("sage.marg_loss", SameT(ml2, Rec(c.post.ml)))
              /\ Ck("sage.model_loss", SameT(mo2, Rec(c.post.mo)))
              /\ Ck("sage.marg_pred", SameMV(mp2, MVRec(c.post.mp, c.post.mpn)))
              /\ Ck("sage.marg_pred_normalised", c.normok => Dict(c.post.margpred) = T!MVNorm(mp2))
              /\ Ck("sage.loss_of_model_pred", Dict(c.losses[1].pred) = pred0)
              /\ Ck("sage.marg_pred_arg", c.normok => Dict(c.losses[2].pred) = T!MVNorm(mp2))
              /\ \A j \in 1..D : Ck("sage.mean_then_loss", Dict(c.losses[2 + j].pred) = T!MeanOutput(outs(j)))
              /\ Ck("sage.chain_ends_at_model", c.models[1].x = c.x)
              /\ Ck("sage.y_passed", \A i \in 1..NL : c.losses[i].y = c.y)
              /\ Ck("sage.offset", c.offset_ok)

(* ---- IncrementalPFI, an explained call *)
PfiCall(c) ==
   LET kind == Tr.kind  a == Tr.alpha  n == c.n
       NL == Len(c.losses)  NI == Len(c.imputes)
       grp(j) == SelectSeq(c.losses, LAMBDA e : e.ai = j)
       valueShape == /\ NI = D /\ NL >= 1 /\ c.losses[1].ai = 0 /\ Len(grp(0)) = 1
                     /\ \A j \in 1..D : Len(grp(j)) >= 1
                     /\ Len(c.models) >= 1 /\ c.models[1].imp = 0
       groups == [f \in Feat |-> [i \in 1..Len(grp(f)) |-> grp(f)[i].val]]
       lorig == c.losses[1].val
       contrib == S!PfiContrib(groups, lorig)
       imp2 == S!ImpUpd(kind, a, MVRec(c.pre.imp, c.pre.impn), contrib)
       var2 == S!VarUpd(kind, a, MVRec(c.pre.var, c.pre.varn), imp2, contrib)
       outs(j) == LET ms == SelectSeq(c.models, LAMBDA m : m.imp = j) IN [i \in 1..Len(ms) |-> ms[i].out]
   IN /\ Ck("contract.model_calls", Len(c.models) = 1 + D * (IF Tr.onemodel THEN 1 ELSE n))
      /\ Ck("contract.loss_calls", NL = 1 + D * n)
      /\ Ck("contract.impute_calls", NI = D /\ \A j \in 1..NI : c.imputes[j].n = n)
      /\ Contract(c)
      /\ Ck("pfi.one_original_loss", NI = D => Len(grp(0)) = 1)
      /\ IF ~valueShape THEN PrintT(<<"SKIP", "pfi.values", tid, l>>)
         ELSE /\ Ck("pfi.single_feature_subset", \A j \in 1..D : c.imputes[j].subset = <<j>>)
              /\ Ck("pfi.importance", SameMV(imp2, MVRec(c.post.imp, c.post.impn)))
              /\ Ck("pfi.variance", SameMV(var2, MVRec(c.post.var, c.post.varn)))
              /\ Ck("pfi.loss_of_model_pred", c.losses[1].pred = c.models[1].out /\ c.models[1].x = c.x)
              /\ \A j \in 1..D :
                    Ck("pfi.loss_per_prediction",
                       LET g == grp(j)  o == outs(j) IN
                       /\ Len(g) = c.imputes[j].count
                       /\ IF Tr.onemodel THEN Len(o) >= 1 ELSE Len(o) = Len(g)
                       /\ \A i \in 1..Len(g) : g[i].pred = (IF Tr.onemodel THEN o[1] ELSE o[i]))
              /\ Ck("pfi.y_passed", \A i \in 1..NL : c.losses[i].y = c.y)
              \* a feature the model ignores has importance exactly zero
              /\ Ck("pfi.ignored_feature_zero",
                    Tr.ignored # 0 => \A q \in 1..Len(c.post.imp) : c.post.imp[q][1] = Tr.ignored => c.post.imp[q][2][2] = 0)
              /\ \A j \in 1..D : c.imputes[j].subset = <<j>> => ImputeClauses(c, j, {j})

(* ---- a call that raised *)
FaultCall(c) ==
   /\ Ck("fault.atomic", Estimates(c.post) = Estimates(c.pre))
   /\ Ck("fault.efficiency_after", Tr.cls = "sage" => Efficiency(c.post))

\* the public update_storage(x, y) between explain_one calls: one storage update, nothing else changes
ManualCall(c) ==
   /\ Ck("manual.estimates_untouched", Estimates(c.post) = Estimates(c.pre) /\ c.post.seen = c.pre.seen)
   /\ Ck("manual.storage_updated_once", Len(c.stores) = 1 /\ c.stores[1].x_is_arg /\ c.stores[1].y_is_arg
                                         /\ Len(c.models) = 0 /\ Len(c.losses) = 0)

CheckCall(c) ==
   IF c.outcome = "manual" THEN ManualCall(c)
   ELSE IF c.outcome # "ret" THEN FaultCall(c)
   ELSE /\ (IF c.pre.seen = 0 THEN FirstCall(c)
            ELSE IF Tr.cls = "sage" THEN SageCall(c) ELSE PfiCall(c))
        /\ Ck("efficiency", Tr.cls = "sage" => Efficiency(c.post))

Next == /\ l <= Len(Tr.calls) /\ CheckCall(Tr.calls[l]) /\ l' = l + 1 /\ UNCHANGED tid
Spec == Init /\ [][Next]_vars
====================================================================================
