SPECIFICATION Spec
CONSTANTS D = 2
 NInner = 1
 IntervalLen = 1
 StorageLen = 3
 MaxCalls = 3
 WithFaults = FALSE
INVARIANT SeenCountsCalls
INVARIANT WindowIsLastK
INVARIANT BatchEfficiency
PROPERTY RecomputeIffScheduled
PROPERTY NoModelCallOffSchedule
PROPERTY ScheduledRecomputes
CHECK_DEADLOCK FALSE
