---------------------------- MODULE FieldQ ----------------------------
(* Exact rationals <<n, d>> with d > 0 and gcd(n, d) = 1, for model checking.      *)
(* Common factors are cancelled *before* multiplying so that intermediate values    *)
(* stay inside TLC's 32-bit integers; TLC aborts on overflow instead of wrapping.   *)
EXTENDS Integers, Sequences
RECURSIVE Gcd(_,_)
Gcd(a, b) == IF b = 0 THEN a ELSE Gcd(b, a % b)
Abs(a) == IF a < 0 THEN -a ELSE a
Norm(n, d) == LET s == IF d < 0 THEN -1 ELSE 1
                  g == Gcd(Abs(n), Abs(d))
              IN IF n = 0 THEN <<0, 1>> ELSE <<(s * n) \div g, (s * d) \div g>>
QInt(i) == <<i, 1>>
QZero == <<0, 1>>
QOne == <<1, 1>>
QAdd(a, b) == LET g == Gcd(a[2], b[2]) IN Norm(a[1] * (b[2] \div g) + b[1] * (a[2] \div g), (a[2] \div g) * b[2])
QSub(a, b) == LET g == Gcd(a[2], b[2]) IN Norm(a[1] * (b[2] \div g) - b[1] * (a[2] \div g), (a[2] \div g) * b[2])
QMul(a, b) == LET g1 == Gcd(Abs(a[1]), b[2])
                  g2 == Gcd(Abs(b[1]), a[2])
              IN Norm((a[1] \div g1) * (b[1] \div g2), (a[2] \div g2) * (b[2] \div g1))
QInv(b) == IF b[1] < 0 THEN <<-b[2], -b[1]>> ELSE <<b[2], b[1]>>
QDiv(a, b) == QMul(a, QInv(b))
QNeg(a) == <<-a[1], a[2]>>
QLeq(a, b) == a[1] * b[2] <= b[1] * a[2]
QLt(a, b) == a[1] * b[2] < b[1] * a[2]
QSq(a) == QMul(a, a)
QIsZero(a) == a[1] = 0
RECURSIVE QPow(_,_)
QPow(a, k) == IF k = 0 THEN QOne ELSE QMul(a, QPow(a, k - 1))
QMin(a, b) == IF QLeq(a, b) THEN a ELSE b
QMax(a, b) == IF QLeq(a, b) THEN b ELSE a
=======================================================================
