SPECIFICATION Spec
CONSTANTS
 Mode = "sage"
 D = 2
 NInner = 1
 Kind = "welford"
 Alpha <- A_1_2
 StoreKind = "batch"
 Cap = 2
 Strategy = "joint"
 NOver = 0
 ModelKind = "multi"
 CommitEarly = FALSE
 MaxCalls = 4
 MaxFaults = 2
 AllowNoUpd = FALSE
INVARIANT Efficiency
INVARIANT FaultAtomic
INVARIANT LockStep
INVARIANT RunningStatistic
INVARIANT VarNonNegative
INVARIANT ContributionDefinition
INVARIANT ChainEndsAtModelLoss
INVARIANT BudgetOnExplained
INVARIANT FirstCallNoModel
INVARIANT FirstCallSeedsOnly
INVARIANT StoreOnce
INVARIANT NeverOwnBackground
PROPERTY StoreAfterExplanation
PROPERTY SeenCountsReturns
PROPERTY CommitIsLinear
CHECK_DEADLOCK FALSE
