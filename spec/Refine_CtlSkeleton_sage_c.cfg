SPECIFICATION Spec
CONSTANTS
 Mode = "sage"
 D = 3
 NInner = 1
 Kind = "es"
 Alpha <- A_1_3
 StoreKind = "interval"
 Cap = 2
 Strategy = "joint"
 NOver = 0
 ModelKind = "scalar"
 CommitEarly = FALSE
 MaxCalls = 3
 MaxFaults = 1
 AllowNoUpd = FALSE
PROPERTY ImplementsSkeleton
CHECK_DEADLOCK FALSE
