SPECIFICATION Spec
CONSTANTS D = 2
 NInner = 1
 IntervalLen = 3
 StorageLen = 2
 MaxCalls = 4
 WithFaults = FALSE
INVARIANT SeenCountsCalls
INVARIANT WindowIsLastK
INVARIANT BatchEfficiency
PROPERTY RecomputeIffScheduled
PROPERTY NoModelCallOffSchedule
PROPERTY ScheduledRecomputes
CHECK_DEADLOCK FALSE
