---------------------------- MODULE MC_Imputers ----------------------------
(* C06: MarginalImputer (joint / product) and DefaultImputer over every feature subset,    *)
(* storage content, number of samples and every outcome of the row draws.                   *)
(* The explained instance is x[f] = 10 f; background row r holds 100 r + f for feature f;   *)
(* the configured defaults are 1000 + f - so every value identifies where it came from.     *)
EXTENDS Integers, Sequences, FiniteSets, TLC, Json
CONSTANTS MaxD, MaxRows, MaxN
S == INSTANCE ExplainerSteps WITH FAdd <- +, FSub <- -, FMul <- *, FDiv <- \div, FInt <- LAMBDA i : i
VARIABLES d, strategy, subset, nrows, n, inputs, draws
vars == <<d, strategy, subset, nrows, n, inputs, draws>>
Feat == 1..d
X == [f \in Feat |-> 10 * f]
Rows == [r \in 1..nrows |-> [f \in Feat |-> 100 * r + f]]
Defaults == [f \in Feat |-> 1000 + f]
Init == /\ d \in 1..MaxD /\ strategy \in {"joint", "product", "default"}
        /\ nrows \in 1..MaxRows /\ n \in 1..MaxN
        /\ subset \in SUBSET (1..d)
        /\ inputs = <<>> /\ draws = <<>>
\* one inner sample: draw row(s), build the model input {**x, **sampled}
DrawSet == IF strategy = "joint" THEN { [f \in subset |-> r] : r \in 1..nrows }
           ELSE IF strategy = "product" THEN [subset -> 1..nrows]
           ELSE { [f \in subset |-> 0] }
Sample(dr) == /\ Len(inputs) < n
              /\ inputs' = Append(inputs, [f \in Feat |-> IF f \in subset
                                                          THEN (IF strategy = "default" THEN Defaults[f] ELSE Rows[dr[f]][f])
                                                          ELSE X[f]])
              /\ draws' = Append(draws, dr)
              /\ UNCHANGED <<d, strategy, subset, nrows, n>>
Next == \E dr \in DrawSet : Sample(dr)
Spec == Init /\ [][Next]_vars

AgreesOutside == \A i \in 1..Len(inputs) : S!OutsideOK(X, inputs[i], subset)
InsideFromBackground ==
   \A i \in 1..Len(inputs) :
      CASE strategy = "joint" -> S!JointOK(X, inputs[i], subset, Rows)
        [] strategy = "product" -> S!ProductOK(X, inputs[i], subset, Rows)
        [] OTHER -> \A f \in subset : inputs[i][f] = Defaults[f]
\* joint with more than one imputed feature never mixes rows
JointNeverMixes == strategy = "joint" =>
   \A i \in 1..Len(inputs) : \A f, g \in subset : (inputs[i][f] - f) = (inputs[i][g] - g)
EmptySubsetIsIdentity == subset = {} => \A i \in 1..Len(inputs) : inputs[i] = X
CountBounded == Len(inputs) <= n
Done == Len(inputs) = n
Emit == Done => PrintT(ToJson([d |-> d, strategy |-> strategy, subset |-> subset, nrows |-> nrows, n |-> n,
                               draws |-> draws, inputs |-> inputs]))
=============================================================================
