SPECIFICATION Spec
CONSTANTS D = 2
 NInner = 2
 IntervalLen = 2
 StorageLen = 2
 MaxCalls = 3
 WithFaults = FALSE
INVARIANT SeenCountsCalls
INVARIANT WindowIsLastK
INVARIANT BatchEfficiency
PROPERTY RecomputeIffScheduled
PROPERTY NoModelCallOffSchedule
PROPERTY ScheduledRecomputes
CHECK_DEADLOCK FALSE
