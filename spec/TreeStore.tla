---------------------------- MODULE TreeStore ----------------------------
(* C19: the reservoir bookkeeping of TreeStorage for one feature (features are independent). *)
(* River's incremental tree is *environment*: during learn_one its leaf set may change        *)
(* arbitrarily (split, prune, swap of an alternate subtree - also off the path of the learned  *)
(* instance).  The specification purges the reservoirs of vanished leaves on EVERY update;     *)
(* LazyPurge = TRUE (purge only when the routed leaf id is new - the code before the repair)   *)
(* is the negative control.                                                                    *)
EXTENDS Integers, Sequences, FiniteSets, TLC
St == INSTANCE Storages
CONSTANTS LeafIds, Cap, MaxUpdates, LazyPurge
VARIABLES seen, leaves, res, routed
vars == <<seen, leaves, res, routed>>
Init == seen = 0 /\ leaves \in { {l} : l \in LeafIds } /\ res = <<>> /\ routed = CHOOSE l \in LeafIds : TRUE
TS == INSTANCE TreeSteps
Step(rs, L2, r, t, c) == IF LazyPurge THEN TS!StepLazyPurge(rs, L2, r, t, c, Cap) ELSE TS!Step(rs, L2, r, t, c, Cap)
Update == /\ seen < MaxUpdates
          /\ \E L2 \in (SUBSET LeafIds) \ {{}} : \E r \in L2 : \E c \in 1..Cap :
                /\ leaves' = L2 /\ routed' = r
                /\ res' = Step(res, L2, r, seen + 1, c)
          /\ seen' = seen + 1
Spec == Init /\ [][Update]_vars
ReservoirKeysAreLeaves == DOMAIN res \subseteq leaves
ReservoirBounded == \A l \in DOMAIN res : Len(res[l]) <= Cap /\ Len(res[l]) >= 1
ContentsObserved == \A l \in DOMAIN res : \A i \in 1..Len(res[l]) : res[l][i] \in 1..seen
NewestInRoutedLeaf == seen > 0 => (routed \in DOMAIN res /\ \E i \in 1..Len(res[routed]) : res[routed][i] = seen)
NoDuplicates == \A l \in DOMAIN res : \A i, j \in 1..Len(res[l]) : i # j => res[l][i] # res[l][j]
===========================================================================
