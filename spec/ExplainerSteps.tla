---------------------------- MODULE ExplainerSteps ----------------------------
(* Pure step functions of one explain_one call of the incremental explainers, shared by  *)
(* the model-checking specification (IncExplainer.tla, applied micro-step by micro-step   *)
(* to its variables) and by the trace specification (Trace_IncExplainer.tla, folded over  *)
(* the logged sub-events of a call).  Written against the abstract field of Trackers.     *)
EXTENDS Integers, Sequences, FiniteSets, FiniteSetsExt, SequencesExt
CONSTANTS FAdd(_,_), FSub(_,_), FMul(_,_), FDiv(_,_), FInt(_)
T == INSTANCE Trackers

(* order of revelation -> position of a feature *)
PosOf(order, f) == CHOOSE j \in 1..Len(order) : order[j] = f

(* SAGE: L is the sequence <<L_0, L_1, ..., L_d>> of chain losses (L_0 = loss of the      *)
(* marginal prediction); the feature revealed at position j is credited L_{j-1} - L_j     *)
SageContrib(order, L) == [f \in { order[j] : j \in 1..Len(order) } |->
                            LET j == PosOf(order, f) IN FSub(L[j], L[j + 1])]

(* PFI: mean loss of the n inner single-feature imputations minus the original loss *)
MeanSeq(s) == FDiv(T!FSumSeq(s), FInt(Len(s)))
PfiContrib(groups, lorig) == [f \in DOMAIN groups |-> FSub(MeanSeq(groups[f]), lorig)]

(* commit of importance and variance trackers: the variance observes the squared deviation *)
(* of the new contribution from the *updated* importance estimate                          *)
ImpUpd(kind, a, imp, contrib) == T!MVUpd(kind, a, imp, contrib)
Deviation(imp2, contrib) == [f \in DOMAIN contrib |-> T!FSq(FSub(contrib[f], imp2.trk[f].val))]
VarUpd(kind, a, var, imp2, contrib) == T!MVUpd(kind, a, var, Deviation(imp2, contrib))

(* subsets handed to the imputer along a SAGE chain: the complement of the revealed prefix *)
NotInS(feat, order, j) == feat \ { order[i] : i \in 1..j }

(* imputed model input: agrees with x outside the subset, takes the subset from background rows *)
JointOK(x, inp, subset, rows) == \E r \in 1..Len(rows) : \A f \in subset : inp[f] = rows[r][f]
ProductOK(x, inp, subset, rows) == \A f \in subset : \E r \in 1..Len(rows) : inp[f] = rows[r][f]
OutsideOK(x, inp, subset) == \A f \in (DOMAIN x) \ subset : inp[f] = x[f]
===============================================================================
