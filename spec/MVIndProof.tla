---------------------------- MODULE MVIndProof ----------------------------
(* TLAPS proof that the counting invariant of MVInd.tla is inductive for ANY set of keys and any number of updates. *)
EXTENDS Integers, FiniteSets, TLAPS
CONSTANTS Keys
VARIABLES n, tracked, fed, first
vars == <<n, tracked, fed, first>>
Init == n = 0 /\ tracked = {} /\ fed = [k \in Keys |-> 0] /\ first = [k \in Keys |-> 0]
Update(U) == /\ n' = n + 1
             /\ tracked' = tracked \union U
             /\ fed' = [k \in Keys |-> IF k \in U THEN fed[k] + 1
                                      ELSE IF k \in tracked THEN fed[k] + 1 ELSE fed[k]]
             /\ first' = [k \in Keys |-> IF k \in tracked THEN first[k] ELSE IF k \in U THEN n + 1 ELSE 0]
Next == \E U \in SUBSET Keys : Update(U)
Spec == Init /\ [][Next]_vars
IndInv == /\ n \in Nat /\ tracked \subseteq Keys
          /\ fed \in [Keys -> Int] /\ first \in [Keys -> Int]
          /\ \A k \in Keys : IF k \in tracked THEN first[k] >= 1 /\ first[k] <= n /\ fed[k] = n - first[k] + 1
                             ELSE first[k] = 0 /\ fed[k] = 0
PerKeySinceFirst == \A k \in tracked : fed[k] = n - first[k] + 1 /\ fed[k] >= 1

LEMMA InitInv == Init => IndInv
  BY DEF Init, IndInv

LEMMA StepInv == IndInv /\ [Next]_vars => IndInv'
<1> SUFFICES ASSUME IndInv, [Next]_vars PROVE IndInv'
  OBVIOUS
<1>1. CASE UNCHANGED vars
  BY <1>1 DEF IndInv, vars
<1>2. CASE Next
  <2>1. PICK U \in SUBSET Keys : Update(U)
    BY <1>2 DEF Next
  <2>2. n' \in Nat /\ tracked' \subseteq Keys
    BY <2>1 DEF Update, IndInv
  <2>3. fed' \in [Keys -> Int] /\ first' \in [Keys -> Int]
    BY <2>1 DEF Update, IndInv
  <2>4. \A k \in Keys : IF k \in tracked' THEN first'[k] >= 1 /\ first'[k] <= n' /\ fed'[k] = n' - first'[k] + 1
                                        ELSE first'[k] = 0 /\ fed'[k] = 0
    <3> TAKE k \in Keys
    <3>1. CASE k \in tracked
      BY <3>1, <2>1 DEF Update, IndInv
    <3>2. CASE k \notin tracked /\ k \in U
      BY <3>2, <2>1 DEF Update, IndInv
    <3>3. CASE k \notin tracked /\ k \notin U
      BY <3>3, <2>1 DEF Update, IndInv
    <3> QED BY <3>1, <3>2, <3>3
  <2> QED BY <2>2, <2>3, <2>4 DEF IndInv
<1> QED BY <1>1, <1>2

LEMMA InvImplies == IndInv => PerKeySinceFirst
  BY DEF IndInv, PerKeySinceFirst

THEOREM Spec => [](IndInv /\ PerKeySinceFirst)
<1>1. Spec => []IndInv
  BY InitInv, StepInv, PTL DEF Spec
<1> QED BY <1>1, InvImplies, PTL
===========================================================================
