SPECIFICATION Spec
CONSTANTS Pairs <- PairSet
 Wrappers <- W2
 MaxCalls = 4
 NoRevert = FALSE
INVARIANT BagUnchanged
INVARIANT ValueIsSingle
INVARIANT Emit
CHECK_DEADLOCK FALSE
