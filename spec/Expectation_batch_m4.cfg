CONSTANTS D = 2
 NInner = 1
 M = 4
 Strategy = "joint"
 Mode = "batch"
