---------------------------- MODULE BatchSage ----------------------------
(* BatchSage.explain_many / explain_many_original (ixai/explainer/sage/batch.py) at the grain  *)
(* of the implementation: one action per callback invocation (the batch model call, every     *)
(* loss call, every model call of an imputation) and per random draw; Fault may strike at     *)
(* every callback.  The explanation is accumulated in a local table and committed to          *)
(* importance_values once, after the last callback.  CommitInPlace = TRUE (accumulate         *)
(* directly in importance_values) is the negative control for C17.                            *)
EXTENDS Integers, Sequences, FiniteSets, FieldQ, TLC, Json
CONSTANTS D, NInner, MaxRows, CommitInPlace, MaxFaults, MaxCalls
E == INSTANCE BatchEnv
B == INSTANCE BatchSteps WITH FAdd <- QAdd, FSub <- QSub, FMul <- QMul, FDiv <- QDiv, FInt <- QInt
T == INSTANCE Trackers WITH FAdd <- QAdd, FSub <- QSub, FMul <- QMul, FDiv <- QDiv, FInt <- QInt
S == INSTANCE ExplainerSteps WITH FAdd <- QAdd, FSub <- QSub, FMul <- QMul, FDiv <- QDiv, FInt <- QInt
Feat == E!Feat
VARIABLES data, mode, pc, i, order, pos, smp, preds, L, meanpred, acc, values, snap, nmodel, cb, fcb, outcome, nfaults,
          orders, draws, ncalls
vars == <<data, mode, pc, i, order, pos, smp, preds, L, meanpred, acc, values, snap, nmodel, cb, fcb, outcome, nfaults,
          orders, draws, ncalls>>
Zero == [f \in Feat |-> QZero]
Datasets == UNION { [1..m -> E!Items] : m \in 1..MaxRows }
M == Len(data)
X(k) == data[k][1]
Y(k) == data[k][2]
Init == /\ data \in Datasets /\ mode \in {"imputer", "original"}
        /\ pc = "idle" /\ i = 0 /\ order = <<>> /\ pos = 0 /\ smp = 0 /\ preds = <<>> /\ L = <<>> /\ meanpred = <<>>
        /\ acc = Zero /\ values = Zero /\ snap = Zero /\ nmodel = 0 /\ cb = 0 /\ fcb = 0 /\ outcome = "none" /\ nfaults = 0
        /\ orders = <<>> /\ draws = <<>> /\ ncalls = 0
\* explain_many(...) is entered (twice per behaviour, so that a failed explanation is followed by another one)
Begin == /\ pc = "idle" /\ ncalls < MaxCalls
         /\ pc' = "batchmodel" /\ snap' = values /\ ncalls' = ncalls + 1 /\ outcome' = "running"
         /\ acc' = Zero /\ values' = (IF CommitInPlace THEN Zero ELSE values)
         /\ i' = 0 /\ nmodel' = 0 /\ cb' = 0 /\ fcb' = 0 /\ orders' = <<>> /\ draws' = <<>>
         /\ UNCHANGED <<data, mode, order, pos, smp, preds, L, meanpred, nfaults>>
\* callback: the model evaluated on all rows at once; mean prediction over the data
BatchModel == /\ pc = "batchmodel"
              /\ meanpred' = T!MeanOutput([k \in 1..M |-> E!Model(X(k))])
              /\ nmodel' = nmodel + M /\ cb' = cb + 1 /\ i' = 1 /\ pc' = "perm"
              /\ UNCHANGED <<data, mode, order, pos, smp, preds, L, acc, values, snap, fcb, outcome, nfaults, orders, draws, ncalls>>
DrawPerm(p) == /\ pc = "perm" /\ order' = p /\ orders' = Append(orders, p) /\ draws' = Append(draws, <<>>) /\ pc' = "lossmarg"
               /\ UNCHANGED <<data, mode, i, pos, smp, preds, L, meanpred, acc, values, snap, nmodel, cb, fcb, outcome, nfaults, ncalls>>
\* callback: loss of the mean prediction for observation i
LossMarg == /\ pc = "lossmarg" /\ L' = <<E!Loss(Y(i), meanpred)>> /\ cb' = cb + 1 /\ pos' = 1 /\ smp' = 1 /\ preds' = <<>>
            /\ pc' = "draw"
            /\ UNCHANGED <<data, mode, i, order, meanpred, acc, values, snap, nmodel, fcb, outcome, nfaults, orders, draws, ncalls>>
NotS == S!NotInS(Feat, order, pos)
\* one background row per inner sample: joint over the whole data set (imputer mode: the batch storage holds the data)
ImputeDraw(r) == /\ pc = "draw"
                 /\ draws' = [draws EXCEPT ![Len(draws)] = Append(@, r)]
                 /\ pc' = "imodel"
                 /\ UNCHANGED <<data, mode, i, order, pos, smp, preds, L, meanpred, acc, values, snap, nmodel, cb, fcb, outcome, nfaults, orders, ncalls>>
LastDraw == draws[Len(draws)][Len(draws[Len(draws)])]
\* callback: model on the instance with the not yet revealed features taken from the drawn row
ImputeModel == /\ pc = "imodel"
               /\ preds' = Append(preds, E!Model([f \in Feat |-> IF f \in NotS THEN X(LastDraw)[f] ELSE X(i)[f]]))
               /\ nmodel' = nmodel + 1 /\ cb' = cb + 1
               /\ IF smp < NInner THEN smp' = smp + 1 /\ pc' = "draw" ELSE smp' = smp /\ pc' = "lossfeat"
               /\ UNCHANGED <<data, mode, i, order, pos, L, meanpred, acc, values, snap, fcb, outcome, nfaults, orders, draws, ncalls>>
\* callback: loss of the mean of the inner predictions; the contribution is accumulated
LossFeat == /\ pc = "lossfeat"
            /\ LET lf == E!Loss(Y(i), T!MeanOutput(preds))
                   contrib == QSub(L[Len(L)], lf)
                   f == order[pos]
               IN /\ L' = Append(L, lf)
                  /\ IF CommitInPlace THEN values' = [values EXCEPT ![f] = QAdd(@, contrib)] /\ UNCHANGED acc
                     ELSE acc' = [acc EXCEPT ![f] = QAdd(@, contrib)] /\ UNCHANGED values
            /\ cb' = cb + 1 /\ preds' = <<>> /\ smp' = 1
            /\ IF pos < D THEN pos' = pos + 1 /\ pc' = "draw" /\ i' = i
               ELSE pos' = pos /\ (IF i < M THEN i' = i + 1 /\ pc' = "perm" ELSE i' = i /\ pc' = "commit")
            /\ UNCHANGED <<data, mode, order, meanpred, snap, nmodel, fcb, outcome, nfaults, orders, draws, ncalls>>
\* importance_values = accumulated contributions / number of observations, assigned once
Commit == /\ pc = "commit"
          /\ values' = [f \in Feat |-> QDiv((IF CommitInPlace THEN values ELSE acc)[f], QInt(M))]
          /\ pc' = "idle" /\ outcome' = "ok"
          /\ UNCHANGED <<data, mode, i, order, pos, smp, preds, L, meanpred, acc, snap, nmodel, cb, fcb, nfaults, orders, draws, ncalls>>
Fault == /\ pc \in {"batchmodel", "lossmarg", "imodel", "lossfeat"} /\ nfaults < MaxFaults
         /\ pc' = "idle" /\ outcome' = "exc" /\ nfaults' = nfaults + 1 /\ fcb' = cb + 1
         /\ UNCHANGED <<data, mode, i, order, pos, smp, preds, L, meanpred, acc, values, snap, nmodel, cb, orders, draws, ncalls>>
Next == Begin \/ BatchModel \/ (\E p \in E!Perms : DrawPerm(p)) \/ LossMarg \/ (\E r \in 1..M : ImputeDraw(r))
        \/ ImputeModel \/ LossFeat \/ Commit \/ Fault
Spec == Init /\ [][Next]_vars
\* C17: a failed explanation leaves importance_values as they were
FaultAtomic == outcome = "exc" => values = snap
\* C05: the committed values sum to the explained loss of the data, each value is the per-feature average
BatchEfficiency == (outcome = "ok" /\ pc = "idle") =>
       B!SumValues(values) = E!ExplainedLossOf([sx |-> [k \in 1..M |-> X(k)], sy |-> [k \in 1..M |-> Y(k)]])
\* C15: evaluation budget of one explanation
ModelBudget == (outcome = "ok" /\ pc = "idle") => nmodel = M + M * D * NInner
Emit == (pc = "idle" /\ ncalls = MaxCalls) =>
          PrintT(ToJson([data |-> data, mode |-> mode, orders |-> orders, draws |-> draws, fault |-> fcb, outcome |-> outcome,
                         values |-> values]))
==========================================================================
