SPECIFICATION Spec
CONSTANTS Keys = {"a","b"}
 MaxCalls = 3
INVARIANT Emit
CHECK_DEADLOCK FALSE
