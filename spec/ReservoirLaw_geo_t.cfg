SPECIFICATION Spec
CONSTANTS K = 3
 MaxN = 8
 Law = "geometric"
INVARIANT Total
INVARIANT KernelIsStorages
INVARIANT GeometricLaw
INVARIANT AlwaysStoredWhenPOne
INVARIANT UniformSubsets
INVARIANT UniformInclusion
CHECK_DEADLOCK FALSE
