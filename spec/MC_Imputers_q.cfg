SPECIFICATION Spec
CONSTANTS MaxD = 3
 MaxRows = 2
 MaxN = 2
INVARIANT AgreesOutside
INVARIANT InsideFromBackground
INVARIANT JointNeverMixes
INVARIANT EmptySubsetIsIdentity
INVARIANT CountBounded
CHECK_DEADLOCK FALSE
