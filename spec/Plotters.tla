---------------------------- MODULE Plotters ----------------------------
(* The recording side of ixai/visualization (outside the 20 listed properties; part of the   *)
(* specification's coverage of the library): FeatureImportancePlotter and ChangePlotter are   *)
(* append-only logs of the importance dictionaries an explainer reported.                     *)
(*   FeatureImportancePlotter.update(values, facet, timestep): appends values to the facet's   *)
(*       y series and timestep (possibly None, encoded 0) to its x series; a call without a    *)
(*       timestep counts one seen time step; facets are created on first use;                  *)
(*       update_performance(v, facet) appends to a separate per-facet series.                  *)
(*   ChangePlotter.update(values): counts one time step and appends, per feature, the value    *)
(*       to the feature's y series and the step number to its x series; features are created   *)
(*       on first use.                                                                         *)
EXTENDS Integers, Sequences, FiniteSets, TLC, Json
CONSTANTS Facets, Feats, Vals, MaxCalls
VARIABLES seen, ydata, xdata, perf, cseen, cy, cx, hist
vars == <<seen, ydata, xdata, perf, cseen, cy, cx, hist>>
Dicts == UNION { [S -> Vals] : S \in SUBSET Feats }
Init == /\ seen = 0 /\ ydata = <<>> /\ xdata = <<>> /\ perf = <<>>
        /\ cseen = 0 /\ cy = <<>> /\ cx = <<>> /\ hist = <<>>
Put(f, k, v) == IF k \in DOMAIN f THEN [f EXCEPT ![k] = Append(@, v)] ELSE [j \in DOMAIN f \cup {k} |-> IF j = k THEN <<v>> ELSE f[j]]
\* ts = 0 stands for "no timestep given"
FIUpdate(d, facet, ts) ==
   /\ seen' = IF ts = 0 THEN seen + 1 ELSE seen
   /\ ydata' = Put(ydata, facet, d) /\ xdata' = Put(xdata, facet, ts)
   /\ hist' = Append(hist, [op |-> "fi", d |-> d, facet |-> facet, ts |-> ts])
   /\ UNCHANGED <<perf, cseen, cy, cx>>
FIPerf(v, facet) ==
   /\ perf' = Put(perf, facet, v)
   /\ hist' = Append(hist, [op |-> "perf", v |-> v, facet |-> facet])
   /\ UNCHANGED <<seen, ydata, xdata, cseen, cy, cx>>
PutAll(f, d, val(_)) == [k \in DOMAIN f \cup DOMAIN d |->
                           IF k \in DOMAIN d THEN (IF k \in DOMAIN f THEN Append(f[k], val(k)) ELSE <<val(k)>>) ELSE f[k]]
ChUpdate(d) ==
   /\ cseen' = cseen + 1
   /\ cy' = PutAll(cy, d, LAMBDA k : d[k]) /\ cx' = PutAll(cx, d, LAMBDA k : cseen + 1)
   /\ hist' = Append(hist, [op |-> "ch", d |-> d])
   /\ UNCHANGED <<seen, ydata, xdata, perf>>
Next == /\ Len(hist) < MaxCalls
        /\ \/ \E d \in Dicts, f \in Facets, ts \in 0..1 : FIUpdate(d, f, ts)
           \/ \E v \in Vals, f \in Facets : FIPerf(v, f)
           \/ \E d \in Dicts : ChUpdate(d)
Spec == Init /\ [][Next]_vars
\* the logs are append-only, series of one facet / feature grow in lock step, nothing is ever dropped
IsPrefix(s, t) == Len(s) <= Len(t) /\ \A i \in 1..Len(s) : s[i] = t[i]
AppendOnly == [][/\ \A k \in DOMAIN ydata : k \in DOMAIN ydata' /\ IsPrefix(ydata[k], ydata'[k])
                 /\ \A k \in DOMAIN cy : k \in DOMAIN cy' /\ IsPrefix(cy[k], cy'[k])
                 /\ \A k \in DOMAIN perf : k \in DOMAIN perf' /\ IsPrefix(perf[k], perf'[k])]_vars
LockStep == /\ DOMAIN ydata = DOMAIN xdata /\ \A k \in DOMAIN ydata : Len(ydata[k]) = Len(xdata[k])
            /\ DOMAIN cy = DOMAIN cx /\ \A k \in DOMAIN cy : Len(cy[k]) = Len(cx[k])
Count(p(_)) == Cardinality({ i \in 1..Len(hist) : p(hist[i]) })
SeenCounts == /\ seen = Count(LAMBDA h : h.op = "fi" /\ h.ts = 0)
              /\ cseen = Count(LAMBDA h : h.op = "ch")
\* the change plotter's x series are the (strictly increasing) step numbers at which the feature was reported
StepsIncrease == \A k \in DOMAIN cx : \A i \in 1..Len(cx[k]) : cx[k][i] <= cseen /\ (i > 1 => cx[k][i - 1] < cx[k][i])
Emit == Len(hist) = MaxCalls => PrintT(ToJson([hist |-> hist, seen |-> seen, ydata |-> ydata, xdata |-> xdata, perf |-> perf,
                                               cseen |-> cseen, cy |-> cy, cx |-> cx]))
=========================================================================
