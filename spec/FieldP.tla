---------------------------- MODULE FieldP ----------------------------
(* The prime field GF(P), P = 46337 (P^2 < 2^31), for validating traces recorded   *)
(* from the implementation run in exact (Fraction) arithmetic: every logged number  *)
(* is reduced mod P by the harness; reduction is a ring homomorphism wherever the   *)
(* denominators are units, so an algebraically correct computation is accepted for  *)
(* every stream length, and a different rational function is rejected except with   *)
(* probability <= degree / P per step (Schwartz-Zippel).                            *)
EXTENDS Integers
P == 46337
PInt(i) == i % P
PAdd(a, b) == (a + b) % P
PSub(a, b) == (a - b) % P
PMul(a, b) == (a * b) % P
RECURSIVE PPow(_,_)
PPow(a, k) == IF k = 0 THEN 1
              ELSE IF k % 2 = 0 THEN PPow(PMul(a, a), k \div 2)
              ELSE PMul(a, PPow(a, k - 1))
PInv(a) == PPow(a, P - 2)
PDiv(a, b) == PMul(a, PInv(b))
PSq(a) == PMul(a, a)
=======================================================================
