---------------------------- MODULE MC_SWIndTLC ----------------------------
(* TLC side of SWInd.tla: its step is Trackers!SWUpd (Trackers!SWUpdWrapBug for the negative control) on the       *)
(* encoding "empty slot = 0, value fed at time t = t"; the invariants hold on the bounded state space as well.     *)
EXTENDS SWInd, FieldQ, TLC
T == INSTANCE Trackers WITH FAdd <- QAdd, FSub <- QSub, FMul <- QMul, FDiv <- QDiv, FInt <- QInt
Conv(b, p) == [buf |-> [i \in 1..K |-> IF b[i] = 0 THEN <<>> ELSE <<b[i]>>], pos |-> p, k |-> K]
StepIsTrackers == Conv(BufNext, PosNext) = (IF WrapBug THEN T!SWUpdWrapBug(Conv(buf, pos), n + 1) ELSE T!SWUpd(Conv(buf, pos), n + 1))
Bound == n <= 3 * K + 2
\* the step the TLAPS proof (SWIndProof.tla: any window length, any number of updates) is about is this module's step;
\* its history variable base (values fed before the current lap) is n - pos
P == INSTANCE SWIndProof WITH base <- n - pos
ProofIsAboutThisStep == [][P!Update <=> Update]_<<n, buf, pos>>
ProofInvariant == P!Inv /\ P!WindowIsLastK
Spec == Init /\ [][Next]_<<n, buf, pos>>
=============================================================================
