---------------------------- MODULE Trace_Trackers ----------------------------
(* Direction B for C10 / C12 / C11: transitions recorded from the real trackers (run with *)
(* Fractions, reduced mod P) are checked against the step functions of Trackers.tla.      *)
EXTENDS TraceBase, FieldP, FiniteSetsExt, SequencesExt
T == INSTANCE Trackers WITH FAdd <- PAdd, FSub <- PSub, FMul <- PMul, FDiv <- PDiv, FInt <- PInt
VARIABLES tid, l
vars == <<tid, l>>
Init == tid \in 1..Len(Traces) /\ l = 1
Tr == Traces[tid]
Ck(name, ok) == Check(name, tid, l, ok)
Rec(j) == [n |-> j[1], val |-> j[2], ss |-> j[3]]
MVRec(js, n) == [trk |-> [k \in { js[i][1] : i \in 1..Len(js) } |->
                            LET i == CHOOSE q \in 1..Len(js) : js[q][1] = k IN Rec(js[i][2])],
                 n |-> n]
BaseStep(ev) ==
   LET pre == Rec(ev.pre)  post == Rec(ev.post)
       x == T!TUpd(Tr.kind, Tr.alpha, pre, ev.v)
   IN /\ Ck("trk.value", x.val = post.val)
      /\ Ck("trk.count", x.n = post.n)
      /\ (Tr.kind = "welford") => /\ Ck("trk.sum_squares", x.ss = post.ss)
                                  /\ Ck("trk.var", T!WVar(x) = ev.var)
                                  /\ Ck("trk.mean_is_value", ev.mean = post.val)
MVStep(ev) ==
   LET pre == MVRec(ev.pre, ev.pren)  post == MVRec(ev.post, ev.postn)
       x == T!MVUpd(Tr.kind, Tr.alpha, pre, PairsToFun(ev.upd))
   IN /\ Ck("mv.keys", DOMAIN x.trk = DOMAIN post.trk)
      /\ Ck("mv.count", x.n = post.n)
      /\ Ck("mv.values", DOMAIN x.trk = DOMAIN post.trk =>
                         \A k \in DOMAIN x.trk : x.trk[k].val = post.trk[k].val /\ x.trk[k].n = post.trk[k].n)
      /\ Ck("mv.get", PairsToFun(ev.get) = T!MVGet(post))
      /\ Ck("mv.normalized", ev.normok => PairsToFun(ev.norm) = T!MVNorm(post))
Next == /\ l <= Len(Tr.ev)
        /\ IF Tr.type = "base" THEN BaseStep(Tr.ev[l]) ELSE MVStep(Tr.ev[l])
        /\ l' = l + 1 /\ UNCHANGED tid
Spec == Init /\ [][Next]_vars
================================================================================
