SPECIFICATION Spec
CONSTANTS MaxK = 5
 WrapBug = FALSE
INVARIANT WindowIsLastK
INVARIANT Emit
CHECK_DEADLOCK FALSE
