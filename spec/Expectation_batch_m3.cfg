CONSTANTS D = 2
 NInner = 1
 M = 3
 Strategy = "joint"
 Mode = "batch"
