SPECIFICATION Spec
CONSTANTS D = 2
 NInner = 1
 MaxRows = 3
INVARIANT BatchEfficiency
INVARIANT ValuesForAllFeatures
CHECK_DEADLOCK FALSE
