SPECIFICATION Spec
CONSTANTS
 K = 3
 WrapBug = TRUE
CONSTRAINT Bound
INVARIANT StepIsTrackers
CHECK_DEADLOCK FALSE
