SPECIFICATION Spec
CONSTANTS MaxLen = 4
INVARIANT Emit
CHECK_DEADLOCK FALSE
