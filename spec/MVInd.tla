---------------------------- MODULE MVInd ----------------------------
(* Counting skeleton of MultiValueTracker for update sequences of ANY length (Apalache):     *)
(* keys are never dropped, the update count equals the number of calls, and the tracker of a  *)
(* key has been fed exactly once per call since the call in which the key first appeared      *)
(* (with the supplied value or the substituted 0).  The value part of MVUpd is rational        *)
(* arithmetic and stays with TLC (MC_MultiValue) and the GF(p) trace validation; this module   *)
(* covers what is unbounded in it: the number of updates.  MC_MVIndTLC.tla checks with TLC     *)
(* that this skeleton is the counting part of Trackers!MVUpd.                                  *)
(* DropMissing = TRUE is the negative control: omitted keys are not zero-fed.                  *)
EXTENDS Integers, FiniteSets
CONSTANTS
  \* @type: Set(Str);
  Keys,
  \* @type: Bool;
  DropMissing
VARIABLES
  \* @type: Int;
  n,
  \* @type: Set(Str);
  tracked,
  \* @type: Str -> Int;
  fed,
  \* @type: Str -> Int;
  first
Init == n = 0 /\ tracked = {} /\ fed = [k \in Keys |-> 0] /\ first = [k \in Keys |-> 0]
\* update(values) with key set U
\* @type: Set(Str) => Bool;
Update(U) == /\ n' = n + 1
             /\ tracked' = tracked \union U
             /\ fed' = [k \in Keys |-> IF k \in U THEN fed[k] + 1
                                      ELSE IF k \in tracked /\ ~DropMissing THEN fed[k] + 1 ELSE fed[k]]
             /\ first' = [k \in Keys |-> IF k \in tracked THEN first[k] ELSE IF k \in U THEN n + 1 ELSE 0]
Next == \E U \in SUBSET Keys : Update(U)
IndInv == /\ n >= 0 /\ tracked \subseteq Keys
          /\ \A k \in Keys : IF k \in tracked THEN first[k] >= 1 /\ first[k] <= n /\ fed[k] = n - first[k] + 1
                             ELSE first[k] = 0 /\ fed[k] = 0
\* C12: per-key count = calls since the key first appeared; (keys monotone and n = number of calls hold by construction of Update)
PerKeySinceFirst == \A k \in tracked : fed[k] = n - first[k] + 1 /\ fed[k] >= 1
KeysMonotone == [][tracked \subseteq tracked']_<<n, tracked, fed, first>>
=======================================================================
