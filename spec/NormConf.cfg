SPECIFICATION Spec
CONSTANTS MaxKeys = 3
INVARIANT RatiosKept
INVARIANT SumIsOne
INVARIANT RangeIsOne
INVARIANT ZeroFallbackAllZero
INVARIANT BoundWellFormed
INVARIANT Emit
CHECK_DEADLOCK FALSE
