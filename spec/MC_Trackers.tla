---------------------------- MODULE MC_Trackers ----------------------------
(* C10 (closed forms, linearity, hull), C20 (shift / scale lemmas): all streams over a  *)
(* small alphabet, all prefixes, exact rationals.                                        *)
EXTENDS Integers, Sequences, FiniteSets, FieldQ, TLC
T == INSTANCE Trackers WITH FAdd <- QAdd, FSub <- QSub, FMul <- QMul, FDiv <- QDiv, FInt <- QInt
CONSTANTS MaxLen
Vals == {-2, -1, 0, 1, 3}
Alphas == {<<1,2>>, <<1,3>>, <<1,1>>, <<0,1>>, <<2,5>>}
ShiftC == 5          \* offset used by the shift lemmas
ScaleS == 3          \* factor used by the scale lemmas
LinA == 2            \* coefficients of the linear combination
LinB == -3
VARIABLES hist, hist2, alpha, w, e, wShift, eShift, wScale, eScale, w2, e2, wLin, eLin
vars == <<hist, hist2, alpha, w, e, wShift, eShift, wScale, eScale, w2, e2, wLin, eLin>>
Init == /\ hist = <<>> /\ hist2 = <<>> /\ alpha \in Alphas
        /\ w = T!TInit /\ e = T!TInit /\ wShift = T!TInit /\ eShift = T!TInit
        /\ wScale = T!TInit /\ eScale = T!TInit /\ w2 = T!TInit /\ e2 = T!TInit
        /\ wLin = T!TInit /\ eLin = T!TInit
\* the second stream follows the first deterministically (reversed sign pattern) so that the
\* linearity check does not square the state space: u_i = v, v_i = 1 - v * (i % 2 + 1)
Second(v, i) == 1 - v * ((i % 2) + 1)
Next == /\ Len(hist) < MaxLen
        /\ \E v \in Vals :
             LET u == Second(v, Len(hist)) IN
             /\ hist' = Append(hist, QInt(v)) /\ hist2' = Append(hist2, QInt(u))
             /\ w' = T!WUpd(w, QInt(v)) /\ e' = T!EUpd(e, QInt(v), alpha)
             /\ wShift' = T!WUpd(wShift, QInt(v + ShiftC)) /\ eShift' = T!EUpd(eShift, QInt(v + ShiftC), alpha)
             /\ wScale' = T!WUpd(wScale, QInt(v * ScaleS)) /\ eScale' = T!EUpd(eScale, QInt(v * ScaleS), alpha)
             /\ w2' = T!WUpd(w2, QInt(u)) /\ e2' = T!EUpd(e2, QInt(u), alpha)
             /\ wLin' = T!WUpd(wLin, QInt(LinA * v + LinB * u)) /\ eLin' = T!EUpd(eLin, QInt(LinA * v + LinB * u), alpha)
        /\ UNCHANGED alpha
Spec == Init /\ [][Next]_vars

N == Len(hist)
Mean(h) == IF h = <<>> THEN QZero ELSE QDiv(T!FSumSeq(h), QInt(Len(h)))
PopVar(h) == IF h = <<>> THEN QZero
             ELSE QDiv(T!FSumSeq([i \in 1..Len(h) |-> QSq(QSub(h[i], Mean(h)))]), QInt(Len(h)))
ESForm(h, a) == T!FSumSeq([i \in 1..Len(h) |-> QMul(QMul(a, QPow(QSub(QOne, a), Len(h) - i)), h[i])])
SeqMin(h) == CHOOSE x \in {h[i] : i \in 1..Len(h)} : \A j \in 1..Len(h) : QLeq(x, h[j])
SeqMax(h) == CHOOSE x \in {h[i] : i \in 1..Len(h)} : \A j \in 1..Len(h) : QLeq(h[j], x)

\* C10
WelfordClosed == w.val = Mean(hist) /\ T!WVar(w) = PopVar(hist) /\ w.n = N
ESClosed == e.val = ESForm(hist, alpha) /\ e.n = N
MeanBetweenMinMax == hist # <<>> => QLeq(SeqMin(hist), w.val) /\ QLeq(w.val, SeqMax(hist))
ESInHull == hist # <<>> => /\ QLeq(QMin(QZero, SeqMin(hist)), e.val)
                           /\ QLeq(e.val, QMax(QZero, SeqMax(hist)))
VarNonNeg == QLeq(QZero, T!WVar(w))
Linear == /\ wLin.val = QAdd(QMul(QInt(LinA), w.val), QMul(QInt(LinB), w2.val))
          /\ eLin.val = QAdd(QMul(QInt(LinA), e.val), QMul(QInt(LinB), e2.val))
\* C20 lemmas (exact): shifting / scaling the stream
ShiftMean == wShift.val = (IF N = 0 THEN QZero ELSE QAdd(QInt(ShiftC), w.val))
ShiftVar == T!WVar(wShift) = T!WVar(w)
ShiftES == eShift.val = QAdd(QMul(QInt(ShiftC), QSub(QOne, QPow(QSub(QOne, alpha), N))), e.val)
ScaleLaws == /\ wScale.val = QMul(QInt(ScaleS), w.val)
             /\ T!WVar(wScale) = QMul(QInt(ScaleS * ScaleS), T!WVar(w))
             /\ eScale.val = QMul(QInt(ScaleS), e.val)
=============================================================================
