SPECIFICATION BSpec
CONSTANTS
 Mode = "sage"
 D = 2
 NInner = 1
 Kind = "welford"
 Alpha <- A_1_2
 StoreKind = "geometric"
 Cap = 2
 Strategy = "joint"
 NOver = 0
 ModelKind = "multi"
 MaxCalls = 3
 AllowNoUpd = TRUE
INVARIANT AEfficiency
INVARIANT ALockStep
INVARIANT AVarNonNegative
INVARIANT AKeys
INVARIANT AStoreBound
INVARIANT AMargPredNormalised
PROPERTY AMonotone
CHECK_DEADLOCK FALSE
