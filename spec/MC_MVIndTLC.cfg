SPECIFICATION TSpec
CONSTANTS
 Keys = {"a", "b", "c"}
 DropMissing = FALSE
CONSTRAINT Bound
INVARIANT SkeletonIsMVUpd
INVARIANT IndInv
INVARIANT PerKeySinceFirst
PROPERTY KeysMonotone
INVARIANT ProofInvariant
PROPERTY ProofIsAboutThisStep
CHECK_DEADLOCK FALSE
