SPECIFICATION Spec
CONSTANTS K = 2
 MaxN = 6
 Law = "geometric"
INVARIANT Emit
CHECK_DEADLOCK FALSE
