SPECIFICATION Spec
CONSTANTS
 K = 3
 WrapBug = FALSE
CONSTRAINT Bound
INVARIANT StepIsTrackers
INVARIANT IndInv
INVARIANT WindowIsLastK
CHECK_DEADLOCK FALSE
