SPECIFICATION Spec
CONSTANTS Pairs <- PairSet
 Wrappers <- W3
 MaxCalls = 5
 NoRevert = FALSE
INVARIANT BagUnchanged
INVARIANT ValueIsSingle
INVARIANT Emit
CHECK_DEADLOCK FALSE
