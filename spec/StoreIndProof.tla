---------------------------- MODULE StoreIndProof ----------------------------
(* TLAPS proofs for StoreInd.tla with ANY capacity and ANY stream length. *)
EXTENDS Integers, Sequences, TLAPS
CONSTANTS Cap
ASSUME CapPos == Cap \in Nat /\ Cap >= 1
VARIABLES n, sx, sy
vars == <<n, sx, sy>>
Init == n = 0 /\ sx = <<>> /\ sy = <<>>
Full == Len(sx) >= Cap
PutX(s, v) == Append(s, v)
ShiftX(s, v) == Append(Tail(s), v)
ReplX(s, c, v) == [s EXCEPT ![c] = v]
UpdateSliding == /\ n' = n + 1
                 /\ IF ~Full THEN sx' = PutX(sx, n + 1) /\ sy' = PutX(sy, 100 + n + 1)
                    ELSE sx' = ShiftX(sx, n + 1) /\ sy' = ShiftX(sy, 100 + n + 1)
UpdateReservoir == /\ n' = n + 1
                   /\ IF ~Full THEN sx' = PutX(sx, n + 1) /\ sy' = PutX(sy, 100 + n + 1)
                      ELSE \E c \in 0..Cap : IF c = 0 THEN UNCHANGED <<sx, sy>>
                                              ELSE sx' = ReplX(sx, c, n + 1) /\ sy' = ReplX(sy, c, 100 + n + 1)
Min(a, b) == IF a < b THEN a ELSE b
Common == /\ n \in Nat /\ sx \in Seq(Int) /\ sy \in Seq(Int)
          /\ Len(sx) = Min(n, Cap) /\ Len(sy) = Len(sx)
          /\ \A i \in 1..Len(sy) : sy[i] = 100 + sx[i]
InvSliding == Common /\ \A i \in 1..Len(sx) : sx[i] = n - Len(sx) + i
InvReservoir == /\ Common
                /\ \A i \in 1..Len(sx) : sx[i] >= 1 /\ sx[i] <= n
                /\ \A i, j \in 1..Len(sx) : i # j => sx[i] # sx[j]

LEMMA SlidingInit == Init => InvSliding
  BY CapPos DEF Init, InvSliding, Common, Min

LEMMA SlidingStep == InvSliding /\ [UpdateSliding]_vars => InvSliding'
<1> SUFFICES ASSUME InvSliding, [UpdateSliding]_vars PROVE InvSliding'
  OBVIOUS
<1>1. CASE UNCHANGED vars
  BY <1>1 DEF InvSliding, Common, vars
<1>2. CASE UpdateSliding /\ ~Full
  <2>1. sx' = Append(sx, n + 1) /\ sy' = Append(sy, 100 + n + 1) /\ n' = n + 1
    BY <1>2 DEF UpdateSliding, PutX
  <2>2. Len(sx) < Cap /\ Len(sx) = n
    BY <1>2, CapPos DEF Full, InvSliding, Common, Min
  <2> QED BY <2>1, <2>2, CapPos DEF InvSliding, Common, Min
<1>3. CASE UpdateSliding /\ Full
  <2>1. sx' = Append(Tail(sx), n + 1) /\ sy' = Append(Tail(sy), 100 + n + 1) /\ n' = n + 1
    BY <1>3 DEF UpdateSliding, ShiftX
  <2>2. Len(sx) = Cap /\ n >= Cap /\ Len(sy) = Cap
    BY <1>3, CapPos DEF Full, InvSliding, Common, Min
  <2>3. Len(Tail(sx)) = Cap - 1 /\ Len(Tail(sy)) = Cap - 1 /\ Tail(sx) \in Seq(Int) /\ Tail(sy) \in Seq(Int)
    BY <2>2, CapPos DEF InvSliding, Common
  <2>4. \A i \in 1..(Cap - 1) : Tail(sx)[i] = sx[i + 1] /\ Tail(sy)[i] = sy[i + 1]
    BY <2>2, CapPos DEF InvSliding, Common
  <2>5. Len(sx') = Cap /\ Len(sy') = Cap /\ sx' \in Seq(Int) /\ sy' \in Seq(Int) /\ n' \in Nat
    BY <2>1, <2>2, <2>3, CapPos DEF InvSliding, Common
  <2>6. \A i \in 1..Cap : sx'[i] = (IF i <= Cap - 1 THEN sx[i + 1] ELSE n + 1)
    BY <2>1, <2>3, <2>4, CapPos
  <2>7. \A i \in 1..Cap : sy'[i] = (IF i <= Cap - 1 THEN sy[i + 1] ELSE 100 + n + 1)
    BY <2>1, <2>3, <2>4, CapPos
  <2>8. \A i \in 1..Cap : sy'[i] = 100 + sx'[i]
    <3> TAKE i \in 1..Cap
    <3>1. CASE i <= Cap - 1
      BY <3>1, <2>6, <2>7, <2>2, CapPos DEF InvSliding, Common
    <3>2. CASE i = Cap
      <4>1. Cap \in 1..Cap /\ ~(Cap <= Cap - 1)
        BY CapPos
      <4>2. sx'[Cap] = n + 1 /\ sy'[Cap] = 100 + n + 1
        BY <4>1, <2>6, <2>7
      <4> QED BY <3>2, <4>2, <2>2, CapPos DEF InvSliding, Common
    <3> QED BY <3>1, <3>2, CapPos
  <2>9. \A i \in 1..Cap : sx'[i] = n' - Cap + i
    <3> TAKE i \in 1..Cap
    <3>1. CASE i <= Cap - 1
      BY <3>1, <2>6, <2>2, <2>1, CapPos DEF InvSliding, Common
    <3>2. CASE i = Cap
      <4>1. Cap \in 1..Cap /\ ~(Cap <= Cap - 1)
        BY CapPos
      <4>2. sx'[Cap] = n + 1
        BY <4>1, <2>6
      <4>3. n \in Nat
        BY DEF InvSliding, Common
      <4> QED BY <3>2, <4>2, <4>3, <2>1, CapPos
    <3> QED BY <3>1, <3>2, CapPos
  <2>10. Min(n', Cap) = Cap
    <3>1. n \in Nat /\ n' = n + 1 /\ n >= Cap
      BY <2>1, <2>2 DEF InvSliding, Common
    <3> QED BY <3>1, CapPos DEF Min
  <2> QED BY <2>5, <2>8, <2>9, <2>10 DEF InvSliding, Common
<1> QED BY <1>1, <1>2, <1>3 DEF Full

LEMMA ReservoirInit == Init => InvReservoir
  BY CapPos DEF Init, InvReservoir, Common, Min

LEMMA ReservoirStep == InvReservoir /\ [UpdateReservoir]_vars => InvReservoir'
<1> SUFFICES ASSUME InvReservoir, [UpdateReservoir]_vars PROVE InvReservoir'
  OBVIOUS
<1>0. n \in Nat /\ sx \in Seq(Int) /\ sy \in Seq(Int) /\ Len(sx) = Min(n, Cap) /\ Len(sy) = Len(sx)
  BY DEF InvReservoir, Common
<1>1. CASE UNCHANGED vars
  BY <1>1 DEF InvReservoir, Common, vars
<1>2. CASE UpdateReservoir /\ ~Full
  <2>1. sx' = Append(sx, n + 1) /\ sy' = Append(sy, 100 + n + 1) /\ n' = n + 1
    BY <1>2 DEF UpdateReservoir, PutX
  <2>2. Len(sx) < Cap /\ Len(sx) = n
    BY <1>2, <1>0, CapPos DEF Full, Min
  <2> QED BY <2>1, <2>2, <1>0, CapPos DEF InvReservoir, Common, Min
<1>3. CASE UpdateReservoir /\ Full
  <2>0. Len(sx) = Cap /\ n >= Cap /\ n' = n + 1
    BY <1>3, <1>0, CapPos DEF Full, Min, UpdateReservoir
  <2>1. PICK c \in 0..Cap : IF c = 0 THEN UNCHANGED <<sx, sy>>
                                      ELSE sx' = ReplX(sx, c, n + 1) /\ sy' = ReplX(sy, c, 100 + n + 1)
    BY <1>3 DEF UpdateReservoir
  <2>2. CASE c = 0
    BY <2>2, <2>1, <2>0, <1>0, CapPos DEF InvReservoir, Common, Min
  <2>3. CASE c # 0
    <3>1. c \in 1..Cap /\ sx' = [sx EXCEPT ![c] = n + 1] /\ sy' = [sy EXCEPT ![c] = 100 + n + 1]
      BY <2>3, <2>1 DEF ReplX
    <3>2. sx' \in Seq(Int) /\ sy' \in Seq(Int) /\ Len(sx') = Cap /\ Len(sy') = Cap
      BY <3>1, <2>0, <1>0, CapPos
    <3>3. \A i \in 1..Cap : sx'[i] = (IF i = c THEN n + 1 ELSE sx[i]) /\ sy'[i] = (IF i = c THEN 100 + n + 1 ELSE sy[i])
      BY <3>1, <2>0, <1>0, CapPos
    <3>4. \A i \in 1..Cap : sy'[i] = 100 + sx'[i]
      BY <3>3, <2>0, <1>0 DEF InvReservoir, Common
    <3>5. \A i \in 1..Cap : sx'[i] >= 1 /\ sx'[i] <= n'
      BY <3>3, <2>0, <1>0 DEF InvReservoir
    <3>6. \A i, j \in 1..Cap : i # j => sx'[i] # sx'[j]
      BY <3>3, <2>0, <1>0 DEF InvReservoir
    <3>7. Min(n', Cap) = Cap /\ n' \in Nat
      BY <2>0, <1>0, CapPos DEF Min
    <3> QED BY <3>2, <3>4, <3>5, <3>6, <3>7 DEF InvReservoir, Common
  <2> QED BY <2>2, <2>3
<1> QED BY <1>1, <1>2, <1>3 DEF Full

(* what C07 states follows from the invariants *)
Observed == \A i \in 1..Len(sx) : sx[i] >= 1 /\ sx[i] <= n
AtMostOnce == \A i, j \in 1..Len(sx) : i # j => sx[i] # sx[j]
Count == Len(sx) = Min(n, Cap)
Aligned == Len(sy) = Len(sx) /\ \A i \in 1..Len(sy) : sy[i] = 100 + sx[i]
LastCapInOrder == \A i \in 1..Len(sx) : sx[i] > n - Cap /\ (i > 1 => sx[i] = sx[i - 1] + 1) /\ (i = Len(sx) => sx[i] = n)

LEMMA SlidingImplies == InvSliding => Observed /\ AtMostOnce /\ Count /\ Aligned /\ LastCapInOrder
  BY CapPos DEF InvSliding, Common, Observed, AtMostOnce, Count, Aligned, LastCapInOrder, Min
LEMMA ReservoirImplies == InvReservoir => Observed /\ AtMostOnce /\ Count /\ Aligned
  BY DEF InvReservoir, Common, Observed, AtMostOnce, Count, Aligned

THEOREM SlidingSafe == Init /\ [][UpdateSliding]_vars => [](Observed /\ AtMostOnce /\ Count /\ Aligned /\ LastCapInOrder)
<1>1. Init /\ [][UpdateSliding]_vars => []InvSliding
  BY SlidingInit, SlidingStep, PTL
<1> QED BY <1>1, SlidingImplies, PTL
THEOREM ReservoirSafe == Init /\ [][UpdateReservoir]_vars => [](Observed /\ AtMostOnce /\ Count /\ Aligned)
<1>1. Init /\ [][UpdateReservoir]_vars => []InvReservoir
  BY ReservoirInit, ReservoirStep, PTL
<1> QED BY <1>1, ReservoirImplies, PTL
==============================================================================
