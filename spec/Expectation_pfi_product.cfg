CONSTANTS D = 2
 NInner = 2
 M = 2
 Strategy = "product"
 Mode = "pfi"
