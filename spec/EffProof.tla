---------------------------- MODULE EffProof ----------------------------
(* TLAPS proof of the algebraic core of C01 (efficiency) for d = 3 features, streams of ANY length, ANY feature   *)
(* order, ANY chain of loss values and ANY linear tracker update  val' = P * val + Q * v  (P = 1 - alpha, Q =     *)
(* alpha for exponential smoothing; P = Q = 1 for running sums, whose quotient by n is the Welford mean): the     *)
(* importance values sum to marginal loss minus model loss, because the chain telescopes and all trackers are the *)
(* same linear operator.  Integers stand for an arbitrary commutative ring of loss values.                         *)
EXTENDS Integers, TLAPS
CONSTANTS P, Q
ASSUME PQ == P \in Int /\ Q \in Int
VARIABLES imp, ml, mo
vars == <<imp, ml, mo>>
Feat == 1..3
Perms == { p \in [1..3 -> Feat] : p[1] # p[2] /\ p[1] # p[3] /\ p[2] # p[3] }
Init == imp = [f \in Feat |-> 0] /\ ml = 0 /\ mo = 0
\* one explained observation: order p, chain losses L[0] (marginal prediction) .. L[3] (= the model's own loss)
Explain(p, L) ==
   LET c == [f \in Feat |-> IF f = p[1] THEN L[0] - L[1] ELSE IF f = p[2] THEN L[1] - L[2] ELSE L[2] - L[3]]
   IN /\ imp' = [f \in Feat |-> P * imp[f] + Q * c[f]]
      /\ ml' = P * ml + Q * L[0]
      /\ mo' = P * mo + Q * L[3]
Next == \E p \in Perms, L \in [0..3 -> Int] : Explain(p, L)
TypeOK == imp \in [Feat -> Int] /\ ml \in Int /\ mo \in Int
Efficiency == imp[1] + imp[2] + imp[3] = ml - mo
Inv == TypeOK /\ Efficiency

LEMMA Lin == \A a1, a2, a3, b1, b2, b3, x, y, u, v \in Int :
                 (a1 + a2 + a3 = x - y /\ b1 + b2 + b3 = u - v) => (a1 + b1) + (a2 + b2) + (a3 + b3) = (x + u) - (y + v)
  OBVIOUS

LEMMA InitInv == Init => Inv
  BY DEF Init, Inv, TypeOK, Efficiency, Feat

LEMMA StepInv == Inv /\ [Next]_vars => Inv'
<1> SUFFICES ASSUME Inv, [Next]_vars PROVE Inv'
  OBVIOUS
<1>1. CASE UNCHANGED vars
  BY <1>1 DEF Inv, TypeOK, Efficiency, vars
<1>2. CASE Next
  <2>1. PICK p \in Perms, L \in [0..3 -> Int] : Explain(p, L)
    BY <1>2 DEF Next
  <2> DEFINE c == [f \in Feat |-> IF f = p[1] THEN L[0] - L[1] ELSE IF f = p[2] THEN L[1] - L[2] ELSE L[2] - L[3]]
  <2>2. imp' = [f \in Feat |-> P * imp[f] + Q * c[f]] /\ ml' = P * ml + Q * L[0] /\ mo' = P * mo + Q * L[3]
    BY <2>1 DEF Explain
  <2>3. L[0] \in Int /\ L[1] \in Int /\ L[2] \in Int /\ L[3] \in Int
    OBVIOUS
  <2>4. c[1] \in Int /\ c[2] \in Int /\ c[3] \in Int /\ c[1] + c[2] + c[3] = L[0] - L[3]
    \* (case analysis over the six orders, so that no single obligation is heavy enough to time out on a loaded machine)
    <3>0. p[1] \in 1..3 /\ p[2] \in 1..3 /\ p[3] \in 1..3 /\ p[1] # p[2] /\ p[1] # p[3] /\ p[2] # p[3]
      BY DEF Perms, Feat
    <3>1. CASE p[1] = 1 /\ p[2] = 2
      BY <3>1, <3>0, <2>3 DEF Feat
    <3>2. CASE p[1] = 1 /\ p[2] = 3
      BY <3>2, <3>0, <2>3 DEF Feat
    <3>3. CASE p[1] = 2 /\ p[2] = 1
      BY <3>3, <3>0, <2>3 DEF Feat
    <3>4. CASE p[1] = 2 /\ p[2] = 3
      BY <3>4, <3>0, <2>3 DEF Feat
    <3>5. CASE p[1] = 3 /\ p[2] = 1
      BY <3>5, <3>0, <2>3 DEF Feat
    <3>6. CASE p[1] = 3 /\ p[2] = 2
      BY <3>6, <3>0, <2>3 DEF Feat
    <3> QED BY <3>0, <3>1, <3>2, <3>3, <3>4, <3>5, <3>6
  <2>5. imp[1] \in Int /\ imp[2] \in Int /\ imp[3] \in Int /\ ml \in Int /\ mo \in Int /\ imp[1] + imp[2] + imp[3] = ml - mo
    BY DEF Inv, TypeOK, Efficiency, Feat
  <2>6. imp'[1] = P * imp[1] + Q * c[1] /\ imp'[2] = P * imp[2] + Q * c[2] /\ imp'[3] = P * imp[3] + Q * c[3]
    BY <2>2 DEF Feat
  <2>7. TypeOK'
    <3>1. \A f \in Feat : imp[f] \in Int /\ c[f] \in Int
      BY <2>3 DEF Inv, TypeOK, Feat
    <3>2. \A f \in Feat : P * imp[f] + Q * c[f] \in Int
      BY <3>1, PQ
    <3>3. P * ml + Q * L[0] \in Int /\ P * mo + Q * L[3] \in Int
      BY <2>3, <2>5, PQ
    <3> QED BY <2>2, <3>2, <3>3 DEF TypeOK
  <2>8. (P * imp[1] + Q * c[1]) + (P * imp[2] + Q * c[2]) + (P * imp[3] + Q * c[3]) = (P * ml + Q * L[0]) - (P * mo + Q * L[3])
    <3>1. P * imp[1] + P * imp[2] + P * imp[3] = P * (imp[1] + imp[2] + imp[3])
      BY <2>5, PQ
    <3>2. Q * c[1] + Q * c[2] + Q * c[3] = Q * (c[1] + c[2] + c[3])
      BY <2>4, PQ
    <3>3. P * (ml - mo) = P * ml - P * mo /\ Q * (L[0] - L[3]) = Q * L[0] - Q * L[3]
      BY <2>3, <2>5, PQ
    <3>4. P * imp[1] \in Int /\ P * imp[2] \in Int /\ P * imp[3] \in Int /\ Q * c[1] \in Int /\ Q * c[2] \in Int /\ Q * c[3] \in Int
          /\ P * ml \in Int /\ P * mo \in Int /\ Q * L[0] \in Int /\ Q * L[3] \in Int
      BY <2>3, <2>4, <2>5, PQ
    <3>5. P * imp[1] + P * imp[2] + P * imp[3] = P * ml - P * mo
      BY <3>1, <3>3, <2>5
    <3>6. Q * c[1] + Q * c[2] + Q * c[3] = Q * L[0] - Q * L[3]
      BY <3>2, <3>3, <2>4
    <3> HIDE DEF c
    <3> QED BY <3>4, <3>5, <3>6, Lin
  <2> QED BY <2>2, <2>6, <2>7, <2>8 DEF Inv, Efficiency
<1> QED BY <1>1, <1>2

THEOREM Init /\ [][Next]_vars => []Efficiency
<1>1. Init /\ [][Next]_vars => []Inv
  BY InitInv, StepInv, PTL
<1> QED BY <1>1, PTL DEF Inv
=========================================================================
