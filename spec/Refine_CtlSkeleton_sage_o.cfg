SPECIFICATION Spec
CONSTANTS
 Mode = "sage"
 D = 2
 NInner = 1
 Kind = "es"
 Alpha <- A_1_2
 StoreKind = "interval"
 Cap = 2
 Strategy = "joint"
 NOver = 2
 ModelKind = "scalar"
 CommitEarly = FALSE
 MaxCalls = 3
 MaxFaults = 1
 AllowNoUpd = FALSE
PROPERTY ImplementsSkeleton
CHECK_DEADLOCK FALSE
