SPECIFICATION Spec
CONSTANTS
 Mode = "sage"
 D = 2
 NInner = 2
 Kind = "es"
 Alpha <- A_1_2
 StoreKind = "interval"
 Cap = 2
 Strategy = "joint"
 NOver = 0
 ModelKind = "scalar"
 CommitEarly = FALSE
 MaxCalls = 3
 MaxFaults = 1
 AllowNoUpd = FALSE
PROPERTY ImplementsSkeleton
CHECK_DEADLOCK FALSE
