---------------------------- MODULE MC_StoreInd ----------------------------
(* Apalache wrapper: constants by predicate, an arbitrary state of the invariant as initial state. *)
EXTENDS StoreInd, Apalache
CInitSliding == Cap \in 1..6 /\ Sliding = TRUE /\ Buggy = FALSE
CInitReservoir == Cap \in 1..6 /\ Sliding = FALSE /\ Buggy = FALSE
CInitSlidingBug == Cap \in 1..6 /\ Sliding = TRUE /\ Buggy = TRUE
CInitReservoirBug == Cap \in 1..6 /\ Sliding = FALSE /\ Buggy = TRUE
IndInit == /\ n \in Nat
           /\ sx = Gen(6) /\ sy = Gen(6)
           /\ IndInv
=============================================================================
