---------------------------- MODULE BatchSteps ----------------------------
(* Pure step functions of BatchSage.explain_many / explain_many_original                  *)
(* (ixai/explainer/sage/batch.py), over the abstract field.                               *)
EXTENDS Integers, Sequences, FiniteSets, FiniteSetsExt, SequencesExt
CONSTANTS FAdd(_,_), FSub(_,_), FMul(_,_), FDiv(_,_), FInt(_)
T == INSTANCE Trackers
S == INSTANCE ExplainerSteps
(* values = per-feature average, over the explained observations, of the chain contribution *)
(* contribs: sequence (one entry per observation) of functions feature -> contribution       *)
BatchValues(feat, contribs) ==
   [f \in feat |-> FDiv(FoldSeq(LAMBDA c, acc : FAdd(c[f], acc), FInt(0), contribs), FInt(Len(contribs)))]
SumValues(v) == FoldSet(LAMBDA f, acc : FAdd(v[f], acc), FInt(0), DOMAIN v)
(* mean over observations of (loss of the mean prediction - loss of the model's own prediction) *)
ExplainedLoss(l0, lmodel) ==
   FDiv(FoldSeq(LAMBDA i, acc : FAdd(FSub(l0[i], lmodel[i]), acc), FInt(0), [i \in 1..Len(l0) |-> i]), FInt(Len(l0)))
============================================================================
