SPECIFICATION Spec
INVARIANT OrderIndependentWithNames
INVARIANT BatchEqualsRowwise
INVARIANT OneHot
INVARIANT Stateless
INVARIANT Emit
CHECK_DEADLOCK FALSE
