SPECIFICATION Spec
INVARIANT OrderIndependentWithNames
INVARIANT BatchEqualsRowwise
INVARIANT OneHot
INVARIANT Emit
CHECK_DEADLOCK FALSE
