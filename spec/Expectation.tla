---------------------------- MODULE Expectation ----------------------------
(* C04: the expected contribution added for an observation equals the exact quantity      *)
(* defined by the storage contents - for SAGE the Shapley value of the game                *)
(*     v(S) = E_rows loss(y, mean of n model outputs with the features outside S imputed)  *)
(*     v({}) = loss of the marginal prediction (the chain start),                          *)
(* for PFI the expected loss increase when the feature is resampled - when feature orders  *)
(* are uniform over all d! permutations and background rows uniform over the whole storage *)
(* (joint: one row per inner sample, product: one row per feature and inner sample;        *)
(* BatchSage original mode: joint rows from the whole data set).  These are theorems about  *)
(* the specification's choice structure, evaluated exactly by TLC as ASSUMEs; the values    *)
(* are printed so that the harness can compare them with the exact expectation of the code. *)
EXTENDS Integers, Sequences, FiniteSets, FiniteSetsExt, FieldQ, TLC
CONSTANTS D, NInner, M, Strategy, Mode
S == INSTANCE ExplainerSteps WITH FAdd <- QAdd, FSub <- QSub, FMul <- QMul, FDiv <- QDiv, FInt <- QInt
T == INSTANCE Trackers WITH FAdd <- QAdd, FSub <- QSub, FMul <- QMul, FDiv <- QDiv, FInt <- QInt
Feat == 1..D
\* the instance (mirrored by the harness): background rows / data set, explained observation
Rows == [r \in 1..M |-> [f \in Feat |-> (r * f + r) % 3]]
Ys == [r \in 1..M |-> r % 3]
X0 == [f \in Feat |-> IF f = D THEN 0 ELSE f]
Y0 == 1
SumI(g) == FoldSet(LAMBDA i, acc : g[i] + acc, 0, DOMAIN g)
Model(x) == [k \in {0} |-> QInt(SumI([i \in Feat |-> ((i % 2) + 1) * x[i]]) - 1 + x[1] * x[D])]
Loss(y, p) == QSub(QSq(QSub(QInt(y), p[0])), QInt(y))
QSumSet(Z) == FoldSet(LAMBDA z, acc : QAdd(z[2], acc), QZero, Z)
\* a game: explained instance x, target y, prediction mp at the chain start
\*   incremental explainers: first explained call of a dynamic explainer with alpha = 1/2 -> mp = model(x) / 2
\*   BatchSage: mp = mean prediction over the data set
IncGame == [x |-> X0, y |-> Y0, mp |-> [k \in {0} |-> QMul(<<1, 2>>, Model(X0)[0])]]
BatchGame(i) == [x |-> Rows[i], y |-> Ys[i], mp |-> T!MeanOutput([r \in 1..M |-> Model(Rows[r])])]

\* one inner sample's draw: a function from the imputed features to row indices
DrawsFor(sub) == IF Strategy = "joint" THEN { [f \in sub |-> r] : r \in 1..M } ELSE [sub -> 1..M]
Imputed(g, sub, dr) == [f \in Feat |-> IF f \in sub THEN Rows[dr[f]][f] ELSE g.x[f]]
\* loss of one evaluation of a coalition whose complement is `sub`, given the NInner draws
CoalLoss(g, sub, drs) == Loss(g.y, T!MeanOutput([k \in 1..NInner |-> Model(Imputed(g, sub, drs[k]))]))
DrawTuples(sub) == [1..NInner -> DrawsFor(sub)]
\* v(S): expectation over the draws; v({}) is the chain start
V(g, Sset) == IF Sset = {} THEN Loss(g.y, g.mp)
              ELSE QDiv(QSumSet({ <<drs, CoalLoss(g, Feat \ Sset, drs)>> : drs \in DrawTuples(Feat \ Sset) }),
                        QInt(Cardinality(DrawTuples(Feat \ Sset))))
Fact(n) == IF n <= 1 THEN 1 ELSE IF n = 2 THEN 2 ELSE IF n = 3 THEN 6 ELSE 24
Shapley(g, f) == QSumSet({ <<Sset, QMul(<<Fact(Cardinality(Sset)) * Fact(D - Cardinality(Sset) - 1), Fact(D)>>,
                                        QSub(V(g, Sset), V(g, Sset \cup {f})))>> : Sset \in SUBSET (Feat \ {f}) })
\* PFI: expected loss when only f is resampled, minus the original loss
PfiValue(g, f) ==
   QSub(QDiv(QSumSet({ <<drs, S!MeanSeq([k \in 1..NInner |-> Loss(g.y, Model(Imputed(g, {f}, drs[k])))])>> :
                       drs \in DrawTuples({f}) }), QInt(Cardinality(DrawTuples({f})))),
        Loss(g.y, Model(g.x)))

\* ---- the sampling scheme of the explainers: uniform order x uniform draws, enumerated
Perms == { p \in [1..D -> Feat] : \A a, b \in 1..D : a # b => p[a] # p[b] }
\* the draws of a whole chain: for every position j the NInner draws for the subset imputed there
ChainDraws(p) == { c \in [1..D -> UNION { DrawTuples(S!NotInS(Feat, p, j)) : j \in 1..D }] :
                      \A j \in 1..D : c[j] \in DrawTuples(S!NotInS(Feat, p, j)) }
ChainLoss(g, p, j, c) == IF j = 0 THEN Loss(g.y, g.mp) ELSE CoalLoss(g, S!NotInS(Feat, p, j), c[j])
Contribution(g, f, p, c) == LET j == S!PosOf(p, f) IN QSub(ChainLoss(g, p, j - 1, c), ChainLoss(g, p, j, c))
ExpectedSage(g, f) ==
   QDiv(QSumSet({ <<p, QDiv(QSumSet({ <<c, Contribution(g, f, p, c)>> : c \in ChainDraws(p) }), QInt(Cardinality(ChainDraws(p))))>> :
                  p \in Perms }), QInt(Cardinality(Perms)))
AvgOverData(Op(_)) == QDiv(QSumSet({ <<i, Op(i)>> : i \in 1..M }), QInt(M))
Expected(f) == IF Mode = "pfi" THEN PfiValue(IncGame, f)
               ELSE IF Mode = "sage" THEN ExpectedSage(IncGame, f)
               ELSE AvgOverData(LAMBDA i : ExpectedSage(BatchGame(i), f))       \* "batch": explain_many / _original
Target(f) == IF Mode = "pfi" THEN PfiValue(IncGame, f)
             ELSE IF Mode = "sage" THEN Shapley(IncGame, f)
             ELSE AvgOverData(LAMBDA i : Shapley(BatchGame(i), f))
ASSUME PrintT(<<"expectation", Mode, Strategy, D, NInner, M, [f \in Feat |-> Target(f)]>>)
ASSUME \A f \in Feat : Expected(f) = Target(f)
\* efficiency of the Shapley value: the values sum to v({}) - v(all features)
ASSUME Mode = "sage" => QSumSet({ <<f, Shapley(IncGame, f)>> : f \in Feat }) = QSub(V(IncGame, {}), V(IncGame, Feat))
=============================================================================
