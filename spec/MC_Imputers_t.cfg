SPECIFICATION Spec
CONSTANTS MaxD = 3
 MaxRows = 3
 MaxN = 3
INVARIANT AgreesOutside
INVARIANT InsideFromBackground
INVARIANT JointNeverMixes
INVARIANT EmptySubsetIsIdentity
INVARIANT CountBounded
CHECK_DEADLOCK FALSE
