---------------------------- MODULE MC_SlidingWindow ----------------------------
(* C11: SlidingWindowTracker(k) holds exactly the last min(n, k) values, for every k and  *)
(* every stream length (values are arrival indices, so the content is identified exactly). *)
EXTENDS Integers, Sequences, FiniteSets, TLC, Json
\* the field is irrelevant for the ring buffer; instantiate with plain integers
IAdd(a, b) == a + b
ISub(a, b) == a - b
IMul(a, b) == a * b
IDiv(a, b) == a \div b
IInt(i) == i
T == INSTANCE Trackers WITH FAdd <- IAdd, FSub <- ISub, FMul <- IMul, FDiv <- IDiv, FInt <- IInt
CONSTANTS MaxK, WrapBug
VARIABLES k, s, n
vars == <<k, s, n>>
Init == k \in 1..MaxK /\ s = T!SWInit(k) /\ n = 0
Next == /\ n < 2 * k + 3
        /\ n' = n + 1
        /\ s' = IF WrapBug THEN T!SWUpdWrapBug(s, n + 1) ELSE T!SWUpd(s, n + 1)
        /\ UNCHANGED k
Spec == Init /\ [][Next]_vars
Content == { T!SWContent(s)[i] : i \in 1..Len(T!SWContent(s)) }
LastK == { i \in 1..n : i > n - k }
WindowIsLastK == Content = LastK /\ Len(T!SWContent(s)) = Cardinality(LastK)
Emit == PrintT(ToJson([k |-> k, n |-> n, window |-> T!SWContent(s)]))
=================================================================================
