SPECIFICATION Spec
CONSTANTS
 Mode = "sage"
 D = 2
 NInner = 1
 Kind = "welford"
 Alpha <- A_1_2
 StoreKind = "geometric"
 Cap = 2
 Strategy = "product"
 NOver = 0
 ModelKind = "multi"
 CommitEarly = FALSE
 MaxCalls = 3
 MaxFaults = 1
 AllowNoUpd = TRUE
PROPERTY ImplementsSkeleton
CHECK_DEADLOCK FALSE
