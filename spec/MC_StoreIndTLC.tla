---------------------------- MODULE MC_StoreIndTLC ----------------------------
(* TLC side of StoreInd.tla: the successor set of its Update action is exactly Storages!Successors (so the      *)
(* inductive invariants Apalache proves for streams of any length are invariants of the kernels every other    *)
(* specification uses), and the invariants hold on the bounded state space as well.                            *)
EXTENDS StoreInd, FiniteSets, TLC
St == INSTANCE Storages
MaxN == 9
Bound == n <= MaxN
Mine == LET st == [sx |-> sx, sy |-> sy] IN
        IF ~Full THEN {[sx |-> PutX(sx, n + 1), sy |-> PutX(sy, 100 + n + 1)]}
        ELSE IF Sliding THEN {[sx |-> ShiftX(sx, n + 1), sy |-> ShiftX(sy, 100 + n + 1)]}
        ELSE {st} \cup {[sx |-> ReplX(sx, c, n + 1), sy |-> ReplX(sy, c, 100 + n + 1)] : c \in 1..Cap}
KernelIsStorages == Mine = St!Successors(IF Sliding THEN "interval" ELSE "uniform", Cap, TRUE, [sx |-> sx, sy |-> sy],
                                         <<n + 1, 100 + n + 1>>)
Spec == Init /\ [][Next]_<<n, sx, sy>>
\* the actions the TLAPS proofs (StoreIndProof.tla: any capacity, any stream length) are about are this module's step
P == INSTANCE StoreIndProof
ProofIsAboutThisStep == [][(IF Sliding THEN P!UpdateSliding ELSE P!UpdateReservoir) <=> Update]_<<n, sx, sy>>
ProofInvariants == IF Sliding THEN P!InvSliding ELSE P!InvReservoir
================================================================================
