---------------------------- MODULE SWInd ----------------------------
(* Inductive invariant of the SlidingWindowTracker ring buffer for streams of ANY length     *)
(* (Apalache): the value fed at time t is t itself, an empty slot is 0.  After n updates the  *)
(* slot i of a window of length K holds the newest arrival t <= n with (t - 1) % K = i - 1,   *)
(* so the buffer holds exactly the last min(n, K) values.  WrapBug = TRUE is the code before  *)
(* the repair (index reset to 0 on wrap-around and not advanced), the negative control.       *)
(* The step is Trackers!SWUpd / SWUpdWrapBug on this encoding; MC_SWIndTLC.tla checks that    *)
(* with TLC.                                                                                  *)
EXTENDS Integers, Sequences
CONSTANTS
  \* @type: Int;
  K,
  \* @type: Bool;
  WrapBug
VARIABLES
  \* @type: Int;
  n,
  \* @type: Int -> Int;
  buf,
  \* @type: Int;
  pos
MaxK == 6
\* (Apalache needs constant ranges: the slots are a filtered constant range)
Slots == { i \in 1..MaxK : i <= K }
Init == n = 0 /\ buf = [i \in Slots |-> 0] /\ pos = 0
\* Trackers!SWUpd: write at pos, advance modulo K;  Trackers!SWUpdWrapBug: on wrap reset to slot 1 and do not advance
BufNext == IF ~WrapBug \/ pos < K THEN [buf EXCEPT ![pos + 1] = n + 1] ELSE [buf EXCEPT ![1] = n + 1]
PosNext == IF ~WrapBug THEN (pos + 1) % K ELSE IF pos < K THEN pos + 1 ELSE 0
Update == n' = n + 1 /\ buf' = BufNext /\ pos' = PosNext
Next == Update
\* the newest arrival written to slot i so far (0: none)
Newest(i) == IF n >= i THEN n - ((n - i) % K) ELSE 0
IndInv == /\ n >= 0 /\ pos = n % K /\ DOMAIN buf = Slots
          /\ \A i \in Slots : buf[i] = Newest(i)
\* C11: the non-empty slots are exactly the last min(n, K) arrivals, each once
WindowIsLastK == /\ \A i \in Slots : buf[i] = 0 \/ (buf[i] > n - K /\ buf[i] <= n /\ buf[i] >= 1)
                 /\ \A d \in 0..(MaxK - 1) : (d < K /\ n - d >= 1) => \E i \in Slots : buf[i] = n - d
                 /\ \A i, j \in Slots : (i # j /\ buf[i] # 0) => buf[i] # buf[j]
=======================================================================
