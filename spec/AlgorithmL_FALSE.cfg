SPECIFICATION Spec
CONSTANTS K = 2
 MaxN = 7
 StaleW = FALSE
INVARIANT SkipUsesCurrentWeight
PROPERTY AcceptOnlyAtNext
CHECK_DEADLOCK FALSE
