SPECIFICATION Spec
CONSTANTS Pairs <- PairSet
 Wrappers <- W2
 MaxCalls = 3
 NoRevert = TRUE
INVARIANT BagUnchanged
INVARIANT ValueIsSingle
CHECK_DEADLOCK FALSE
