CONSTANTS D = 2
 NInner = 2
 M = 3
 Strategy = "joint"
 Mode = "sage"
