---------------------------- MODULE Storages ----------------------------
(* Pure one-step kernels of the data storages (ixai/storage/*.py).  A storage is a pair    *)
(* of parallel sequences (sx, sy); an item is a pair <<x, y>>.  For the reservoirs the      *)
(* random outcome (reject / replace slot s) is a parameter, so that the model checker can   *)
(* enumerate it, the trace validator can infer it, and ReservoirLaw can weight it.          *)
EXTENDS Integers, Sequences, FiniteSets

Kinds == {"batch", "interval", "sequence", "geometric", "uniform"}
Empty == [sx |-> <<>>, sy |-> <<>>]

Put(st, it, targets) == [sx |-> Append(st.sx, it[1]),
                         sy |-> IF targets THEN Append(st.sy, it[2]) ELSE st.sy]
\* total on every logged content (a trace may show a storage whose target list is shorter than its instance list)
TailOrEmpty(s) == IF s = <<>> THEN <<>> ELSE Tail(s)
Shift(st, it, targets) == [sx |-> Append(TailOrEmpty(st.sx), it[1]),
                           sy |-> IF targets THEN Append(TailOrEmpty(st.sy), it[2]) ELSE st.sy]
Replace(st, s, it, targets) == [sx |-> [st.sx EXCEPT ![s] = it[1]],
                                sy |-> IF targets /\ s \in DOMAIN st.sy THEN [st.sy EXCEPT ![s] = it[2]] ELSE st.sy]

(* Choices: 0 = keep the reservoir unchanged, s in 1..cap = replace slot s *)
Choices(kind, cap, st) == IF kind \in {"geometric", "uniform"} /\ Len(st.sx) >= cap THEN 0..cap ELSE {0}

Update(kind, cap, targets, st, it, choice) ==
   CASE kind = "batch" -> Put(st, it, targets)
     [] kind \in {"interval", "sequence"} ->
          IF Len(st.sx) < cap THEN Put(st, it, targets) ELSE Shift(st, it, targets)
     [] kind \in {"geometric", "uniform"} ->
          IF Len(st.sx) < cap THEN Put(st, it, targets)
          ELSE IF choice = 0 THEN st ELSE Replace(st, choice, it, targets)

Successors(kind, cap, targets, st, it) ==
   { Update(kind, cap, targets, st, it, c) : c \in Choices(kind, cap, st) }
==========================================================================
