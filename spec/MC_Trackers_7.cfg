SPECIFICATION Spec
CONSTANTS MaxLen = 7
INVARIANT WelfordClosed
INVARIANT ESClosed
INVARIANT MeanBetweenMinMax
INVARIANT ESInHull
INVARIANT VarNonNeg
INVARIANT Linear
INVARIANT ShiftMean
INVARIANT ShiftVar
INVARIANT ShiftES
INVARIANT ScaleLaws
CHECK_DEADLOCK FALSE
