SPECIFICATION Spec
CONSTANTS K = 1
 MaxN = 3
 Law = "uniform"
INVARIANT Emit
CHECK_DEADLOCK FALSE
