------------------------------- MODULE TLAPS --------------------------------

(* Backend pragmas. *)


(***************************************************************************)
(* Each of these pragmas can be cited with a BY or a USE.  The pragma that *)
(* is added to the context of an obligation most recently is the one whose *)
(* effects are triggered.                                                  *)
(***************************************************************************)

(***************************************************************************)
(* The following pragmas should be used only as a last resource.  They are *)
(* dependent upon the particular backend provers, and are unlikely to have *)
(* any effect if the set of backend provers changes.  Moreover, they are   *)
(* meaningless to a reader of the proof.                                   *)
(***************************************************************************)


(**************************************************************************)
(* Backend pragma: use the SMT solver for arithmetic.                     *)
(*                                                                        *)
(* This method exists under this name for historical reasons.             *)
(**************************************************************************)

SimpleArithmetic == TRUE (*{ by (prover:"smt3") }*)


(**************************************************************************)
(* Backend pragma: SMT solver                                             *)
(*                                                                        *)
(* This method translates the proof obligation to SMTLIB2. The supported  *)
(* fragment includes first-order logic, set theory, functions and         *)
(* records.                                                               *)
(* SMT calls the smt-solver with the default timeout of 5 seconds         *)
(* while SMTT(n) calls the smt-solver with a timeout of n seconds.        *)
(*                                                                        *)
(* SMTT also accepts a string argument of the form "rN" to bound the      *)
(* underlying Z3 solver by a deterministic `rlimit` budget instead of a    *)
(* wall-clock timeout, e.g. SMTT("r5"). N is a multiple of a fixed base    *)
(* resource count, so a small readable budget like "r5" is meaningful.     *)
(* Unlike a wall-clock timeout, an `rlimit` budget does not depend on CPU  *)
(* speed or load, so the proof's pass/fail outcome reproduces on any       *)
(* machine and every rerun (for a fixed Z3 build); how long it takes to    *)
(* consume the budget still varies by machine. This is Z3-specific.        *)
(**************************************************************************)

SMT == TRUE (*{ by (prover:"smt3") }*)
SMTT(X) == TRUE (*{ by (prover:"smt3"; timeout:@) }*)


(**************************************************************************)
(* Backend pragma: CVC4 SMT solver                                        *)
(*                                                                        *)
(* These methods translate the proof obligation to SMTLIB2 and call CVC4. *)
(**************************************************************************)

(* The CVC3* methods are here for backward compatibility. They call CVC4. *)
CVC3 == TRUE (*{ by (prover: "cvc33") }*)
CVC3T(X) == TRUE (*{ by (prover:"cvc33"; timeout:@) }*)

CVC4 == TRUE (*{ by (prover: "cvc33") }*)
CVC4T(X) == TRUE (*{ by (prover:"cvc33"; timeout:@) }*)


(**************************************************************************)
(* Backend pragma: Yices SMT solver                                       *)
(*                                                                        *)
(* This method translates the proof obligation to Yices native language.  *)
(**************************************************************************)

Yices == TRUE (*{ by (prover: "yices3") }*)
YicesT(X) == TRUE (*{ by (prover:"yices3"; timeout:@) }*)

(**************************************************************************)
(* Backend pragma: veriT SMT solver                                       *)
(*                                                                        *)
(* This method translates the proof obligation to SMTLIB2 and calls veriT.*)
(**************************************************************************)

veriT == TRUE (*{ by (prover: "verit") }*)
veriTT(X) == TRUE (*{ by (prover:"verit"; timeout:@) }*)

(**************************************************************************)
(* Backend pragma: Zipperposition solver                                  *)
(*                                                                        *)
(* This method translates the proof obligation to TPTP and                *)
(* calls Zipperposition.                                                  *)
(**************************************************************************)

Zipper == TRUE (*{ by (prover: "zipper") }*)
ZipperT(X) == TRUE (*{ by (prover:"zipper"; timeout:@) }*)

(**************************************************************************)
(* Backend pragma: Z3 SMT solver                                          *)
(*                                                                        *)
(* This method translates the proof obligation to SMTLIB2 and calls Z3.   *)
(* Z3 is used by default but you can also explicitly call it.             *)
(* Z3T(n) bounds Z3 by a wall-clock timeout of n seconds, while Z3T("rN")  *)
(* bounds it by a deterministic `rlimit` budget of N base units, which      *)
(* reproduces the same outcome on any machine (see SMTT).                   *)
(**************************************************************************)

Z3 == TRUE (*{ by (prover: "z33") }*)
Z3T(X) == TRUE (*{ by (prover:"z33"; timeout:@) }*)

(**************************************************************************)
(* Backend pragma: SPASS superposition prover                             *)
(*                                                                        *)
(* This method translates the proof obligation to the DFG format language *)
(* supported by the ATP SPASS. The translation is based on the SMT one.   *)
(**************************************************************************)

Spass == TRUE (*{ by (prover: "spass") }*)
SpassT(X) == TRUE (*{ by (prover:"spass"; timeout:@) }*)

(**************************************************************************)
(* Backend pragma: The PTL propositional linear time temporal logic       *)
(* prover.  It currently is the LS4 backend.                              *)
(*                                                                        *)
(* This method translates the negetation of the proof obligation to       *)
(* Seperated Normal Form (TRP++ format) and checks for unsatisfiability   *)
(**************************************************************************)

LS4 == TRUE (*{ by (prover: "ls4") }*)
LS4T(X) == TRUE (*{ by (prover: "ls4"; timeout:@) }*)
PTL == TRUE (*{ by (prover: "ls4") }*)

(**************************************************************************)
(* Backend pragma: Zenon with different timeouts (default is 10 seconds)  *)
(*                                                                        *)
(**************************************************************************)

Zenon == TRUE (*{ by (prover:"zenon") }*)
ZenonT(X) == TRUE (*{ by (prover:"zenon"; timeout:@) }*)

(********************************************************************)
(* Backend pragma: Isabelle with different timeouts and tactics     *)
(*  (default is 30 seconds/auto)                                    *)
(********************************************************************)

Isa == TRUE (*{ by (prover:"isabelle") }*)
IsaT(X) ==  TRUE (*{ by (prover:"isabelle"; timeout:@) }*)
IsaM(X) ==  TRUE (*{ by (prover:"isabelle"; tactic:@) }*)
IsaMT(X,Y) ==  TRUE (*{ by (prover:"isabelle"; tactic:@; timeout:@) }*)

(***************************************************************************)
(* The following theorem expresses the (useful implication of the) law of  *)
(* set extensionality, which can be written as                             *)
(*                                                                         *)
(*    THEOREM  \A S, T : (S = T) <=> (\A x : (x \in S) <=> (x \in T))      *)
(*                                                                         *)
(* Theorem SetExtensionality is sometimes required by the SMT backend for  *)
(* reasoning about sets. It is usually counterproductive to include        *)
(* theorem SetExtensionality in a BY clause for the Zenon or Isabelle      *)
(* backends. Instead, use the pragma IsaWithSetExtensionality to instruct  *)
(* the Isabelle backend to use the rule of set extensionality.             *)
(***************************************************************************)
IsaWithSetExtensionality == TRUE
           (*{ by (prover:"isabelle"; tactic:"(auto intro: setEqualI)")}*)

THEOREM SetExtensionality == \A S,T : (\A x : x \in S <=> x \in T) => S = T
OBVIOUS

(***************************************************************************)
(* The following theorem is needed to deduce NotInSetS \notin SetS from    *)
(* the definition                                                          *)
(*                                                                         *)
(*   NotInSetS == CHOOSE v : v \notin SetS                                 *)
(***************************************************************************)
THEOREM NoSetContainsEverything == \A S : \E x : x \notin S
OBVIOUS (*{by (isabelle "(auto intro: inIrrefl)")}*)
-----------------------------------------------------------------------------



(********************************************************************)
(********************************************************************)
(********************************************************************)


(********************************************************************)
(* Old versions of Zenon and Isabelle pragmas below                 *)
(* (kept for compatibility)                                         *)
(********************************************************************)


(**************************************************************************)
(* Backend pragma: Zenon with different timeouts (default is 10 seconds)  *)
(*                                                                        *)
(**************************************************************************)

SlowZenon == TRUE (*{ by (prover:"zenon"; timeout:20) }*)
SlowerZenon == TRUE (*{ by (prover:"zenon"; timeout:40) }*)
VerySlowZenon == TRUE (*{ by (prover:"zenon"; timeout:80) }*)
SlowestZenon == TRUE (*{ by (prover:"zenon"; timeout:160) }*)



(********************************************************************)
(* Backend pragma: Isabelle's automatic search ("auto")             *)
(*                                                                  *)
(* This pragma bypasses Zenon. It is useful in situations involving *)
(* essentially simplification and equational reasoning.             *)
(* Default imeout for all isabelle tactics is 30 seconds.           *)
(********************************************************************)
Auto == TRUE (*{ by (prover:"isabelle"; tactic:"auto") }*)
SlowAuto == TRUE (*{ by (prover:"isabelle"; tactic:"auto"; timeout:120) }*)
SlowerAuto == TRUE (*{ by (prover:"isabelle"; tactic:"auto"; timeout:480) }*)
SlowestAuto == TRUE (*{ by (prover:"isabelle"; tactic:"auto"; timeout:960) }*)

(********************************************************************)
(* Backend pragma: Isabelle's "force" tactic                        *)
(*                                                                  *)
(* This pragma bypasses Zenon. It is useful in situations involving *)
(* quantifier reasoning.                                            *)
(********************************************************************)
Force == TRUE (*{ by (prover:"isabelle"; tactic:"force") }*)
SlowForce == TRUE (*{ by (prover:"isabelle"; tactic:"force"; timeout:120) }*)
SlowerForce == TRUE (*{ by (prover:"isabelle"; tactic:"force"; timeout:480) }*)
SlowestForce == TRUE (*{ by (prover:"isabelle"; tactic:"force"; timeout:960) }*)

(***********************************************************************)
(* Backend pragma: Isabelle's "simplification" tactics                 *)
(*                                                                     *)
(* These tactics simplify the goal before running one of the automated *)
(* tactics. They are often necessary for obligations involving record  *)
(* or tuple projections. Use the SimplfyAndSolve tactic unless you're  *)
(* sure you can get away with just Simplification                      *)
(***********************************************************************)
SimplifyAndSolve        == TRUE
    (*{ by (prover:"isabelle"; tactic:"clarsimp auto?") }*)
SlowSimplifyAndSolve    == TRUE
    (*{ by (prover:"isabelle"; tactic:"clarsimp auto?"; timeout:120) }*)
SlowerSimplifyAndSolve  == TRUE
    (*{ by (prover:"isabelle"; tactic:"clarsimp auto?"; timeout:480) }*)
SlowestSimplifyAndSolve == TRUE
    (*{ by (prover:"isabelle"; tactic:"clarsimp auto?"; timeout:960) }*)

Simplification == TRUE (*{ by (prover:"isabelle"; tactic:"clarsimp") }*)
SlowSimplification == TRUE
    (*{ by (prover:"isabelle"; tactic:"clarsimp"; timeout:120) }*)
SlowerSimplification  == TRUE
    (*{ by (prover:"isabelle"; tactic:"clarsimp"; timeout:480) }*)
SlowestSimplification == TRUE
    (*{ by (prover:"isabelle"; tactic:"clarsimp"; timeout:960) }*)

(**************************************************************************)
(* Backend pragma: Isabelle's tableau prover ("blast")                    *)
(*                                                                        *)
(* This pragma bypasses Zenon and uses Isabelle's built-in theorem        *)
(* prover, Blast. It is almost never better than Zenon by itself, but     *)
(* becomes very useful in combination with the Auto pragma above. The     *)
(* AutoBlast pragma first attempts Auto and then uses Blast to prove what *)
(* Auto could not prove. (There is currently no way to use Zenon on the   *)
(* results left over from Auto.)                                          *)
(**************************************************************************)
Blast == TRUE (*{ by (prover:"isabelle"; tactic:"blast") }*)
SlowBlast == TRUE (*{ by (prover:"isabelle"; tactic:"blast"; timeout:120) }*)
SlowerBlast == TRUE (*{ by (prover:"isabelle"; tactic:"blast"; timeout:480) }*)
SlowestBlast == TRUE (*{ by (prover:"isabelle"; tactic:"blast"; timeout:960) }*)

AutoBlast == TRUE (*{ by (prover:"isabelle"; tactic:"auto, blast") }*)


(**************************************************************************)
(* Backend pragmas: multi-back-ends                                       *)
(*                                                                        *)
(* These pragmas just run a bunch of back-ends one after the other in the *)
(* hope that one will succeed. This saves time and effort for the user at *)
(* the expense of computation time.                                       *)
(**************************************************************************)

(* CVC3 goes first because it's bundled with TLAPS, then the other SMT
   solvers are unlikely to succeed if CVC3 fails, so we run zenon and
   Isabelle before them. *)
AllProvers == TRUE (*{
    by (prover:"cvc33")
    by (prover:"zenon")
    by (prover:"isabelle"; tactic:"auto")
    by (prover:"spass")
    by (prover:"smt3")
    by (prover:"yices3")
    by (prover:"verit")
    by (prover:"z33")
    by (prover:"isabelle"; tactic:"force")
    by (prover:"isabelle"; tactic:"(auto intro: setEqualI)")
    by (prover:"isabelle"; tactic:"clarsimp auto?")
    by (prover:"isabelle"; tactic:"clarsimp")
    by (prover:"isabelle"; tactic:"auto, blast")
  }*)
AllProversT(X) == TRUE (*{
    by (prover:"cvc33"; timeout:@)
    by (prover:"zenon"; timeout:@)
    by (prover:"isabelle"; tactic:"auto"; timeout:@)
    by (prover:"spass"; timeout:@)
    by (prover:"smt3"; timeout:@)
    by (prover:"yices3"; timeout:@)
    by (prover:"verit"; timeout:@)
    by (prover:"z33"; timeout:@)
    by (prover:"isabelle"; tactic:"force"; timeout:@)
    by (prover:"isabelle"; tactic:"(auto intro: setEqualI)"; timeout:@)
    by (prover:"isabelle"; tactic:"clarsimp auto?"; timeout:@)
    by (prover:"isabelle"; tactic:"clarsimp"; timeout:@)
    by (prover:"isabelle"; tactic:"auto, blast"; timeout:@)
  }*)

AllSMT == TRUE (*{
    by (prover:"cvc33")
    by (prover:"smt3")
    by (prover:"yices3")
    by (prover:"verit")
    by (prover:"z33")
  }*)
AllSMTT(X) == TRUE (*{
    by (prover:"cvc33"; timeout:@)
    by (prover:"smt3"; timeout:@)
    by (prover:"yices3"; timeout:@)
    by (prover:"verit"; timeout:@)
    by (prover:"z33"; timeout:@)
  }*)

AllIsa == TRUE (*{
    by (prover:"isabelle"; tactic:"auto")
    by (prover:"isabelle"; tactic:"force")
    by (prover:"isabelle"; tactic:"(auto intro: setEqualI)")
    by (prover:"isabelle"; tactic:"clarsimp auto?")
    by (prover:"isabelle"; tactic:"clarsimp")
    by (prover:"isabelle"; tactic:"auto, blast")
  }*)
AllIsaT(X) == TRUE (*{
    by (prover:"isabelle"; tactic:"auto"; timeout:@)
    by (prover:"isabelle"; tactic:"force"; timeout:@)
    by (prover:"isabelle"; tactic:"(auto intro: setEqualI)"; timeout:@)
    by (prover:"isabelle"; tactic:"clarsimp auto?"; timeout:@)
    by (prover:"isabelle"; tactic:"clarsimp"; timeout:@)
    by (prover:"isabelle"; tactic:"auto, blast"; timeout:@)
  }*)


(**************************************************************************)
(* The pragma ExpandEnabled invokes expansion of the operator ENABLED.    *)
(*                                                                        *)
(* The pragma ExpandCdot invokes expansion of the operator \cdot.         *)
(*                                                                        *)
(* The pragma AutoUSE invokes automated expansion of definitions,         *)
(* for both of ExpandEnabled and ExpandCdot, when each is present.        *)
(*                                                                        *)
(* The pragma Lambdify invokes expansion of the operators                 *)
(* ENABLED and \cdot to an intermediate form with bound VARIABLES,        *)
(* which is a form before introducing rigid quantifiers.                  *)
(* The pragma Lambdify is sound for occurrences of ENABLED and \cdot      *)
(* that are not nested.                                                   *)
(**************************************************************************)
ExpandENABLED == TRUE  (*{ by (prover:"expandenabled") }*)
ExpandCdot == TRUE  (*{ by (prover:"expandcdot") }*)
AutoUSE == TRUE  (*{ by (prover:"autouse") }*)
Lambdify == TRUE  (*{ by (prover:"lambdify") }*)
ENABLEDaxioms == TRUE  (*{ by (prover:"enabledaxioms") }*)
LevelComparison == TRUE  (*{ by (prover:"levelcomparison") }*)

(* The operators EnabledWrapper and CdotWrapper occur in an intermediate  *)
(* representation within TLAPM.                                           *)
EnabledWrapper(Op(_)) == FALSE
CdotWrapper(Op(_)) == FALSE

(***************************************************************************)
(* The following may be used in a `BY ONLY ThmName` for unit testing the   *)
(* triviality checks in TLAPM.                                             *)
(***************************************************************************)
Trivial == TRUE  (*{ by (prover:"trivial") }*)


=============================================================================

The material below is obsolete: the TLA proof rules below are superseded by
the PTL decision procedure, and their formulation is unsound for the semantics
of temporal reasoning that TLAPS adopts.

----------------------------------------------------------------------------
(***************************************************************************)
(*                           TEMPORAL LOGIC                                *)
(*                                                                         *)
(* The following rules are intended to be used when TLAPS handles temporal *)
(* logic.  They will not work now.  Moreover when temporal reasoning is    *)
(* implemented, these rules may be changed or omitted, and additional      *)
(* rules will probably be added.  However, they are included mainly so     *)
(* their names will be defined, preventing the use of identifiers that are *)
(* likely to produce name clashes with future versions of this module.     *)
(***************************************************************************)


(***************************************************************************)
(* The following proof rules (and their names) are from the paper "The     *)
(* Temporal Logic of Actions".                                             *)
(***************************************************************************)
THEOREM RuleTLA1 == ASSUME STATE P, STATE f,
                           P /\ (f' = f) => P'
                    PROVE  []P <=> P /\ [][P => P']_f

THEOREM RuleTLA2 == ASSUME STATE P, STATE Q, STATE f, STATE g,
                           ACTION A, ACTION B,
                           P /\ [A]_f => Q /\ [B]_g
                    PROVE  []P /\ [][A]_f => []Q /\ [][B]_g

THEOREM RuleINV1 == ASSUME STATE I, STATE F,  ACTION N,
                           I /\ [N]_F => I'
                    PROVE  I /\ [][N]_F => []I

THEOREM RuleINV2 == ASSUME STATE I, STATE f, ACTION N
                    PROVE  []I => ([][N]_f <=> [][N /\ I /\ I']_f)

THEOREM RuleWF1 == ASSUME STATE P, STATE Q, STATE f, ACTION N, ACTION A,
                          P /\ [N]_f => (P' \/ Q'),
                          P /\ <<N /\ A>>_f => Q',
                          P => ENABLED <<A>>_f
                   PROVE  [][N]_f /\ WF_f(A) => (P ~> Q)

THEOREM RuleSF1 == ASSUME STATE P, STATE Q, STATE f,
                          ACTION N, ACTION A, TEMPORAL F,
                          P /\ [N]_f => (P' \/ Q'),
                          P /\ <<N /\ A>>_f => Q',
                          []P /\ [][N]_f /\ []F => <> ENABLED <<A>>_f
                   PROVE  [][N]_f /\ SF_f(A) /\ []F => (P ~> Q)

(***************************************************************************)
(* The rules WF2 and SF2 in "The Temporal Logic of Actions" are obtained   *)
(* from the following two rules by the following substitutions: `.         *)
(*                                                                         *)
(*          ___        ___         _______________                         *)
(*      M <- M ,   g <- g ,  EM <- ENABLED <<M>>_g       .'                *)
(***************************************************************************)
THEOREM RuleWF2 == ASSUME STATE P, STATE f, STATE g, STATE EM,
                          ACTION A, ACTION B, ACTION N, ACTION M,
                          TEMPORAL F,
                          <<N /\ B>>_f => <<M>>_g,
                          P /\ P' /\ <<N /\ A>>_f /\ EM => B,
                          P /\ EM => ENABLED A,
                          [][N /\ ~B]_f /\ WF_f(A) /\ []F /\ <>[]EM => <>[]P
                   PROVE  [][N]_f /\ WF_f(A) /\ []F => []<><<M>>_g \/ []<>(~EM)

THEOREM RuleSF2 == ASSUME STATE P, STATE f, STATE g, STATE EM,
                          ACTION A, ACTION B, ACTION N, ACTION M,
                          TEMPORAL F,
                          <<N /\ B>>_f => <<M>>_g,
                          P /\ P' /\ <<N /\ A>>_f /\ EM => B,
                          P /\ EM => ENABLED A,
                          [][N /\ ~B]_f /\ SF_f(A) /\ []F /\ []<>EM => <>[]P
                   PROVE  [][N]_f /\ SF_f(A) /\ []F => []<><<M>>_g \/ <>[](~EM)


(***************************************************************************)
(* The following rule is a special case of the general temporal logic      *)
(* proof rule STL4 from the paper "The Temporal Logic of Actions".  The    *)
(* general rule is for arbitrary temporal formulas F and G, but it cannot  *)
(* yet be handled by TLAPS.                                                *)
(***************************************************************************)
THEOREM RuleInvImplication ==
  ASSUME STATE F, STATE G,
         F => G
  PROVE  []F => []G
PROOF OMITTED

(***************************************************************************)
(* The following rule is a special case of rule TLA2 from the paper "The   *)
(* Temporal Logic of Actions".                                             *)
(***************************************************************************)
THEOREM RuleStepSimulation ==
  ASSUME STATE I, STATE f, STATE g,
         ACTION M, ACTION N,
         I /\ I' /\ [M]_f => [N]_g
  PROVE  []I /\ [][M]_f => [][N]_g
PROOF OMITTED

(***************************************************************************)
(* The following may be used to invoke a decision procedure for            *)
(* propositional temporal logic.                                           *)
(***************************************************************************)
PropositionalTemporalLogic == TRUE
=============================================================================
