SPECIFICATION Spec
CONSTANTS D = 2
 NInner = 2
 MaxRows = 2
 CommitInPlace = FALSE
 MaxFaults = 1
 MaxCalls = 2
INVARIANT FaultAtomic
INVARIANT BatchEfficiency
INVARIANT ModelBudget
CHECK_DEADLOCK FALSE
