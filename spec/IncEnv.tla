---------------------------- MODULE IncEnv ----------------------------
(* The environment of the incremental explainers: the stream items, the model and the loss  *)
(* as uninterpreted tables (ModelKind selects one), the values configured for a             *)
(* DefaultImputer.  Shared by the micro-step specification (IncExplainer.tla) and by the    *)
(* atomic specification it refines (AbsExplainer.tla).                                      *)
EXTENDS Integers, Sequences, FiniteSets, FiniteSetsExt, FieldQ
CONSTANTS D, ModelKind
T == INSTANCE Trackers WITH FAdd <- QAdd, FSub <- QSub, FMul <- QMul, FDiv <- QDiv, FInt <- QInt
Feat == 1..D
Items == { <<[i \in Feat |-> IF i = 1 THEN 0 ELSE 1], 1>>,
           <<[i \in Feat |-> 1], 0>>,
           <<[i \in Feat |-> IF i = 1 THEN 2 ELSE 0], 2>> }
SumI(f) == FoldSet(LAMBDA i, acc : f[i] + acc, 0, DOMAIN f)
Model(x) ==
   IF ModelKind = "scalar"
   THEN [k \in {0} |-> QInt(SumI([i \in Feat |-> ((i % 2) + 1) * x[i]]) - 1 + x[1] * x[D])]
   ELSE \* label 2 only appears for some inputs: label sets grow over time
        [k \in (IF x[1] > 0 THEN {1, 2} ELSE {1}) |->
            IF k = 1 THEN QInt(SumI([i \in Feat |-> i * x[i]]) + 1) ELSE QInt(x[1] * x[1] + x[D])]
\* deliberately asymmetric and sign-mixed; quadratic for scalar outputs, linear (but sensitive to every label,
\* so that a missing label matters) for multi-label outputs to keep the rationals inside 32-bit integers
Loss(y, p) == IF ModelKind = "scalar"
              THEN QSub(T!FSumFun([k \in DOMAIN p |-> QSq(QSub(QInt(y * (k + 1)), p[k]))]), QInt(y))
              ELSE QSub(T!FSumFun([k \in DOMAIN p |-> QMul(QInt((k + 1) * (2 - y)), p[k])]),
                        QInt(y * Cardinality(DOMAIN p)))
Defaults == [f \in Feat |-> 3]
=======================================================================
