SPECIFICATION Spec
CONSTANTS D = 2
 NInner = 1
 MaxRows = 2
INVARIANT Emit
CHECK_DEADLOCK FALSE
